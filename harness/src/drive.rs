//! Protocol-respecting host driver: records every call at the API boundary and
//! runs the common tripwires (snapshot invariants) after every call.

use crate::util;
use abasic_core::verif_hooks::{self, Snapshot};
use abasic_core::{Interpreter, InterpreterError, InterpreterOutput, InterpreterState, OutOfMemoryError, SyntaxError};
use serde_json::{json, Value};

/// No legitimate host call comes anywhere near this many token-cursor reads (measured maximum: a few hundred).
pub const TOKEN_READ_BUDGET_PER_CALL: u64 = 5_000_000;

#[derive(Clone, Debug, PartialEq)]
pub enum Out {
    Print(String),
    Break(Option<u64>),
    Warning(String, Option<u64>),
    Trace(u64),
    ExtraIgnored,
    Reenter,
}

impl Out {
    pub fn from(o: &InterpreterOutput) -> Out {
        match o {
            InterpreterOutput::Print(s) => Out::Print(s.clone()),
            InterpreterOutput::Break(l) => Out::Break(*l),
            InterpreterOutput::Warning(m, l) => Out::Warning(m.clone(), *l),
            InterpreterOutput::Trace(l) => Out::Trace(*l),
            InterpreterOutput::ExtraIgnored => Out::ExtraIgnored,
            InterpreterOutput::Reenter => Out::Reenter,
        }
    }
    pub fn to_json(&self) -> Value {
        match self {
            Out::Print(s) => json!({"print": s}),
            Out::Break(l) => json!({"break": l}),
            Out::Warning(m, l) => json!({"warning": m, "line": l}),
            Out::Trace(l) => json!({"trace": l}),
            Out::ExtraIgnored => json!("EXTRA IGNORED"),
            Out::Reenter => json!("REENTER"),
        }
    }
}

/// Stable names for error kinds (independent of Display wording).
pub fn err_kind(e: &InterpreterError) -> &'static str {
    match e {
        InterpreterError::Syntax(SyntaxError::Tokenization(_)) => "SYNTAX/TOKENIZATION",
        InterpreterError::Syntax(SyntaxError::UnexpectedToken) => "SYNTAX/UNEXPECTED TOKEN",
        InterpreterError::Syntax(SyntaxError::ExpectedToken(_)) => "SYNTAX/EXPECTED TOKEN",
        InterpreterError::Syntax(SyntaxError::UnexpectedEndOfInput) => "SYNTAX/UNEXPECTED END",
        InterpreterError::TypeMismatch => "TYPE MISMATCH",
        InterpreterError::DataTypeMismatch => "DATA TYPE MISMATCH",
        InterpreterError::UndefinedStatement => "UNDEF'D STATEMENT",
        InterpreterError::OutOfMemory(OutOfMemoryError::StackOverflow) => "OUT OF MEMORY/STACK OVERFLOW",
        InterpreterError::OutOfMemory(OutOfMemoryError::ArrayTooLarge) => "OUT OF MEMORY/ARRAY TOO LARGE",
        InterpreterError::OutOfData => "OUT OF DATA",
        InterpreterError::ReturnWithoutGosub => "RETURN WITHOUT GOSUB",
        InterpreterError::NextWithoutFor => "NEXT WITHOUT FOR",
        InterpreterError::BadSubscript => "BAD SUBSCRIPT",
        InterpreterError::IllegalQuantity => "ILLEGAL QUANTITY",
        InterpreterError::Unimplemented => "UNIMPLEMENTED",
        InterpreterError::DivisionByZero => "DIVISION BY ZERO",
        InterpreterError::RedimensionedArray => "REDIM'D ARRAY",
        InterpreterError::CannotContinue => "CAN'T CONTINUE",
        InterpreterError::IllegalDirect => "ILLEGAL DIRECT",
        // an error kind this harness does not know (a change to the repository may add one): still a value, not a build failure
        #[allow(unreachable_patterns)]
        InterpreterError::Syntax(_) => "SYNTAX/OTHER",
        #[allow(unreachable_patterns)]
        InterpreterError::OutOfMemory(_) => "OUT OF MEMORY/OTHER",
        #[allow(unreachable_patterns)]
        _ => "OTHER ERROR KIND",
    }
}

pub fn is_syntax(kind: &str) -> bool {
    kind.starts_with("SYNTAX")
}

#[derive(Clone, Debug, PartialEq)]
pub struct ErrInfo {
    pub kind: &'static str,
    pub display: String,
    /// line number attached to the error (None = immediate / none)
    pub line: Option<u64>,
    pub token_index: Option<usize>,
    /// rendering of the offending line + caret (as the CLI / Web show it)
    pub caret: Vec<String>,
}

#[derive(Clone, Debug, PartialEq)]
pub enum Res {
    Ok,
    Err(ErrInfo),
    Panic(String),
}

impl Res {
    pub fn is_ok(&self) -> bool {
        matches!(self, Res::Ok)
    }
    pub fn err_kind(&self) -> Option<&'static str> {
        match self {
            Res::Err(e) => Some(e.kind),
            _ => None,
        }
    }
    pub fn to_json(&self) -> Value {
        match self {
            Res::Ok => json!("ok"),
            Res::Err(e) => json!({"err": e.kind, "line": e.line, "token": e.token_index, "text": e.display}),
            Res::Panic(m) => json!({"panic": m}),
        }
    }
    /// (kind, line) for comparisons
    pub fn outcome(&self) -> (String, Option<u64>) {
        match self {
            Res::Ok => ("OK".into(), None),
            Res::Err(e) => (e.kind.to_string(), e.line),
            Res::Panic(m) => (format!("PANIC {}", m), None),
        }
    }
}

#[derive(Clone, Debug, PartialEq)]
pub enum Op {
    Line(String),
    Cont,
    Input(String),
    Break,
    Randomize(u64),
    /// host replaces the interpreter after NEW
    Replace,
    /// `stop_evaluating()`: the host abandons whatever is running
    Stop,
}

impl Op {
    pub fn to_json(&self) -> Value {
        match self {
            Op::Line(s) => json!({"line": s}),
            Op::Cont => json!("continue"),
            Op::Input(s) => json!({"reply": s}),
            Op::Break => json!("break"),
            Op::Randomize(s) => json!({"randomize": s}),
            Op::Replace => json!("replace-after-NEW"),
            Op::Stop => json!("stop_evaluating"),
        }
    }
}

#[derive(Clone, Debug)]
pub struct CallRec {
    pub op: Op,
    pub res: Res,
    pub outs: Vec<Out>,
    pub state: InterpreterState,
    pub token_reads: u64,
    pub data_scan: u64,
}

impl CallRec {
    pub fn to_json(&self) -> Value {
        json!({
            "op": self.op.to_json(), "result": self.res.to_json(),
            "outputs": self.outs.iter().map(|o| o.to_json()).collect::<Vec<_>>(),
            "state": format!("{:?}", self.state),
        })
    }
}

/// A tripped invariant: owned by `property`.
#[derive(Clone, Debug)]
pub struct Trip {
    pub property: &'static str,
    pub signature: String,
    pub message: String,
}

pub struct Session {
    pub it: Interpreter,
    pub log: Vec<CallRec>,
    pub keep_log: bool,
    pub poisoned: bool,
    pub trips: Vec<Trip>,
    pub check_invariants: bool,
    pub calls: u64,
    pub max_stack: usize,
    pub max_loops: usize,
    /// configuration re-applied when the host replaces the interpreter after NEW
    pub last_snapshot: Option<Snapshot>,
}

impl Default for Session {
    fn default() -> Self {
        Session::new()
    }
}

impl Session {
    pub fn new() -> Self {
        Session::from_interpreter(Interpreter::default())
    }

    pub fn from_interpreter(it: Interpreter) -> Self {
        Session {
            it,
            log: vec![],
            keep_log: true,
            poisoned: false,
            trips: vec![],
            check_invariants: true,
            calls: 0,
            max_stack: 0,
            max_loops: 0,
            last_snapshot: None,
        }
    }

    pub fn state(&self) -> InterpreterState {
        self.it.get_state()
    }

    pub fn is_legal(&self, op: &Op) -> bool {
        if self.poisoned {
            return false;
        }
        match (op, self.state()) {
            (Op::Line(_), InterpreterState::Idle) => true,
            (Op::Cont, InterpreterState::Running) => true,
            (Op::Input(_), InterpreterState::AwaitingInput) => true,
            (Op::Break, InterpreterState::Running | InterpreterState::AwaitingInput) => true,
            (Op::Randomize(_), s) => s != InterpreterState::NewInterpreterRequested,
            (Op::Replace, InterpreterState::NewInterpreterRequested) => true,
            (Op::Stop, s) => s != InterpreterState::NewInterpreterRequested,
            _ => false,
        }
    }

    /// Execute one host call. Panics (in the harness sense) if the op is illegal:
    /// drivers must respect the protocol.
    pub fn call(&mut self, op: Op) -> &CallRec {
        assert!(self.is_legal(&op), "harness bug: illegal op {:?} in state {:?}", op, self.state());
        let (t0, d0) = verif_hooks::work_counters();
        // logical watchdog: a call that keeps reading tokens without handing control back is cut off by the hook
        verif_hooks::set_token_read_budget(Some(TOKEN_READ_BUDGET_PER_CALL));
        let it = &mut self.it;
        let mut err_info: Option<ErrInfo> = None;
        let caught = util::catch(|| match &op {
            Op::Line(line) => match it.start_evaluating(line) {
                Ok(()) => {}
                Err(e) => {
                    let caret = e.get_line_with_pointer_caret(it, Some(line.as_str()));
                    let loc = verif_hooks::error_loc(&e);
                    err_info = Some(ErrInfo {
                        kind: err_kind(&e.error),
                        display: e.to_string(),
                        line: loc.as_ref().and_then(|l| l.line),
                        token_index: loc.as_ref().map(|l| l.token_index),
                        caret,
                    });
                }
            },
            Op::Cont => match it.continue_evaluating() {
                Ok(()) => {}
                Err(e) => {
                    let caret = e.get_line_with_pointer_caret::<&str>(it, None);
                    let loc = verif_hooks::error_loc(&e);
                    err_info = Some(ErrInfo {
                        kind: err_kind(&e.error),
                        display: e.to_string(),
                        line: loc.as_ref().and_then(|l| l.line),
                        token_index: loc.as_ref().map(|l| l.token_index),
                        caret,
                    });
                }
            },
            Op::Input(text) => it.provide_input(text.clone()),
            Op::Break => it.break_at_current_location(),
            Op::Randomize(seed) => it.randomize(*seed),
            Op::Stop => {
                it.stop_evaluating();
            }
            Op::Replace => {
                let w = it.enable_warnings;
                let t = it.enable_tracing;
                *it = Interpreter::default();
                // the CLI re-creates the interpreter from its options; keep them
                it.enable_warnings = w;
                it.enable_tracing = t;
            }
        });
        verif_hooks::set_token_read_budget(None);
        let (t1, d1) = verif_hooks::work_counters();
        let res = match caught {
            Err(msg) => {
                self.poisoned = true;
                Res::Panic(msg)
            }
            Ok(()) => match err_info {
                Some(e) => Res::Err(e),
                None => Res::Ok,
            },
        };
        let outs: Vec<Out> = if self.poisoned {
            vec![]
        } else {
            self.it.take_output().iter().map(Out::from).collect()
        };
        let state = if self.poisoned { InterpreterState::Idle } else { self.it.get_state() };
        self.calls += 1;
        let rec = CallRec { op, res, outs, state, token_reads: t1 - t0, data_scan: d1 - d0 };
        self.post_call_checks(&rec);
        if !self.keep_log {
            self.log.clear();
        }
        self.log.push(rec);
        self.log.last().unwrap()
    }

    fn trip(&mut self, property: &'static str, signature: &str, message: String) {
        if self.trips.len() < 8 {
            self.trips.push(Trip { property, signature: signature.to_string(), message });
        }
    }

    fn post_call_checks(&mut self, rec: &CallRec) {
        if let Res::Panic(m) = &rec.res {
            if m.contains("token-read budget") {
                self.trip(
                    "C09",
                    "call-does-not-return",
                    format!("host call {} read the token cursor more than {} times without handing control back (cut off by the hook's logical watchdog)", brief_op(&rec.op), TOKEN_READ_BUDGET_PER_CALL),
                );
                return;
            }
            let sig = format!("panic:{}", m.rsplit(" @ ").next().unwrap_or(""));
            self.trip("C01", &sig, format!("host call {:?} panicked: {}", brief_op(&rec.op), m));
            return;
        }
        if let Res::Err(e) = &rec.res {
            if rec.state != InterpreterState::Idle {
                self.trip(
                    "C01",
                    "err-not-idle",
                    format!("call returned Err({}) but state is {:?}", e.kind, rec.state),
                );
            }
            // caret rendering must be [] or [text, caret]
            let c = &e.caret;
            let ok = c.is_empty()
                || (c.len() == 2 && {
                    let caret = &c[1];
                    let trimmed = caret.trim_start_matches(' ');
                    !trimmed.is_empty() && trimmed.chars().all(|ch| ch == '^')
                });
            if !ok {
                self.trip("C01", "caret-malformed", format!("error {} rendered as {:?}", e.kind, c));
            }
        }
        if !self.check_invariants {
            return;
        }
        let snap = match util::catch(|| self.it.verif_snapshot()) {
            Ok(s) => s,
            Err(m) => {
                self.poisoned = true;
                self.trip("C01", "snapshot-panic", format!("verif_snapshot panicked: {}", m));
                return;
            }
        };
        self.max_stack = self.max_stack.max(snap.stack.len());
        self.max_loops = self.max_loops.max(snap.loops.len());
        for t in snapshot_invariants(&snap) {
            if self.trips.len() < 8 {
                self.trips.push(t);
            }
        }
        self.last_snapshot = Some(snap);
    }

    pub fn snapshot(&self) -> Snapshot {
        self.it.verif_snapshot()
    }

    pub fn history_json(&self) -> Value {
        Value::Array(self.log.iter().map(|r| r.to_json()).collect())
    }

    /// Enter a line when idle and drive it to quiescence (Idle / AwaitingInput / NEW), at most
    /// `turn_cap` continue calls. Returns (all outputs, final result, turns used, capped?).
    pub fn run_line(&mut self, line: &str, turn_cap: u64) -> RunOut {
        let mut out = RunOut::default();
        let rec = self.call(Op::Line(line.to_string()));
        out.outs.extend(rec.outs.iter().cloned());
        out.res = rec.res.clone();
        out.turns = 1;
        self.drive(turn_cap, &mut out);
        out
    }

    /// Continue while Running.
    pub fn drive(&mut self, turn_cap: u64, out: &mut RunOut) {
        while !self.poisoned && self.state() == InterpreterState::Running && out.res.is_ok() {
            if out.turns >= turn_cap {
                out.capped = true;
                break;
            }
            let rec = self.call(Op::Cont);
            out.outs.extend(rec.outs.iter().cloned());
            out.res = rec.res.clone();
            out.turns += 1;
        }
    }

    /// Bring the interpreter to Idle the way a host would (break if running/awaiting, replace after NEW).
    pub fn settle(&mut self) {
        if self.poisoned {
            return;
        }
        match self.state() {
            InterpreterState::Running | InterpreterState::AwaitingInput => {
                self.call(Op::Break);
            }
            InterpreterState::NewInterpreterRequested => {
                self.call(Op::Replace);
            }
            InterpreterState::Idle => {}
        }
    }
}

#[derive(Clone, Debug)]
pub struct RunOut {
    pub outs: Vec<Out>,
    pub res: Res,
    pub turns: u64,
    pub capped: bool,
}

impl Default for RunOut {
    fn default() -> Self {
        RunOut { outs: vec![], res: Res::Ok, turns: 0, capped: false }
    }
}

impl RunOut {
    pub fn printed(&self) -> String {
        let mut s = String::new();
        for o in &self.outs {
            if let Out::Print(p) = o {
                s.push_str(p);
            }
        }
        s
    }
}

pub fn brief_op(op: &Op) -> String {
    match op {
        Op::Line(s) => format!("Line({:?})", util::truncate(s, 120)),
        Op::Input(s) => format!("Input({:?})", util::truncate(s, 120)),
        other => format!("{:?}", other),
    }
}

fn suffix_kind(name: &str) -> char {
    if name.ends_with('$') {
        'S'
    } else {
        'N'
    }
}

/// S1–S6: caps, shapes, typing, index agreement, no stale location.
pub fn snapshot_invariants(s: &Snapshot) -> Vec<Trip> {
    let mut trips = vec![];
    let mut trip = |property: &'static str, signature: &str, message: String| {
        trips.push(Trip { property, signature: signature.to_string(), message });
    };
    // S1
    if s.stack.len() > 32 {
        trip("C16", "stack-cap", format!("{} frames on the subroutine/function stack (> 32)", s.stack.len()));
    }
    // S2
    if s.loops.len() > 32 {
        trip("C16", "loop-cap", format!("{} open FOR loops (> 32)", s.loops.len()));
    }
    for (i, l) in s.loops.iter().enumerate() {
        if s.loops[..i].iter().any(|m| m.0 == l.0) {
            trip("C16", "loop-dup", format!("two open FOR loops for variable {}", l.0));
            break;
        }
    }
    // S3
    for a in &s.arrays {
        if a.dimensions.is_empty() {
            trip("C16", "array-nodims", format!("array {} has no dimensions", a.name));
            continue;
        }
        let mut prod: Option<usize> = Some(1);
        for d in &a.dimensions {
            prod = prod.and_then(|p| p.checked_mul(*d));
        }
        if prod != Some(a.cells) {
            trip(
                "C16",
                "array-shape",
                format!("array {} has dimensions {:?} but {} cells", a.name, a.dimensions, a.cells),
            );
        }
        if a.cells > 10000 {
            trip("C16", "array-cap", format!("array {} holds {} cells (> 10000)", a.name, a.cells));
        }
        if a.kind != suffix_kind(&a.name) {
            trip("C16", "array-kind", format!("array {} stores kind {}", a.name, a.kind));
        }
    }
    // S4
    for (name, kind, text) in &s.variables {
        if *kind != suffix_kind(name) {
            trip("C16", "var-kind", format!("variable {} holds a value of kind {} ({:?})", name, kind, text));
        }
    }
    for (_, bindings) in &s.stack {
        for (name, kind, text) in bindings {
            if *kind != suffix_kind(name) {
                trip("C16", "param-kind", format!("parameter {} bound to kind {} ({:?})", name, kind, text));
            }
        }
    }
    // S7: the nesting counter of the recursive-descent evaluator is balanced within every host call; a value
    // left over at a turn boundary is never given back and eventually turns every expression into
    // OUT OF MEMORY (the interpreter is wedged although each single call still "returns normally")
    if s.nesting_depth != 0 {
        trip("C01", "nesting-depth-leak", format!("nesting depth is {} at a turn boundary (must be 0 between host calls)", s.nesting_depth));
    }
    // S5
    if s.map_lines != s.set_lines {
        trip(
            "C04",
            "index-disagree",
            format!("line map keys {:?} != sorted set {:?}", brief_u64s(&s.map_lines), brief_u64s(&s.set_lines)),
        );
    }
    if let Some((l, _)) = s.line_token_counts.iter().find(|(_, n)| *n == 0) {
        trip("C04", "empty-line-stored", format!("line {} stored with zero tokens", l));
    }
    // S6
    let exists = |line: Option<u64>| match line {
        None => true,
        Some(n) => s.map_lines.binary_search(&n).is_ok(),
    };
    if !exists(s.location.line) {
        trip("C11", "stale-location", format!("current location names missing line {:?}", s.location.line));
    }
    if let Some(b) = &s.breakpoint {
        if !exists(b.line) {
            trip("C11", "stale-breakpoint", format!("breakpoint names missing line {:?}", b.line));
        }
    }
    for (loc, _) in &s.stack {
        if !exists(loc.line) {
            trip("C11", "stale-frame", format!("stack frame returns to missing line {:?}", loc.line));
        }
    }
    for l in &s.loops {
        if !exists(l.1.line) {
            trip("C11", "stale-loop", format!("FOR loop {} resumes at missing line {:?}", l.0, l.1.line));
        }
    }
    for f in &s.functions {
        if !exists(f.2.line) {
            trip("C11", "stale-function", format!("function {} defined at missing line {:?}", f.0, f.2.line));
        }
    }
    if let Some((chunks, _, _)) = &s.data_cursor {
        for (loc, _) in chunks {
            if !exists(loc.line) {
                trip("C11", "stale-data", format!("data cursor names missing line {:?}", loc.line));
                break;
            }
        }
    }
    trips
}

fn brief_u64s(v: &[u64]) -> String {
    if v.len() <= 12 {
        format!("{:?}", v)
    } else {
        format!("{:?}…({} total)", &v[..12], v.len())
    }
}

/// Report accumulated trips of a session into the worker report (each under its owning property).
pub fn flush_trips(
    ctx: &crate::runner::Ctx,
    rep: &mut crate::report::Report,
    index: u64,
    sess: &Session,
    case: impl Fn() -> Value,
) -> bool {
    let mut any = false;
    for t in &sess.trips {
        any = true;
        ctx.violation(
            rep,
            t.property,
            &format!("{}:{}", t.property, t.signature),
            index,
            t.message.clone(),
            json!({"case": case(), "history_tail": tail_history(sess, 12)}),
        );
    }
    any
}

pub fn tail_history(sess: &Session, n: usize) -> Value {
    let start = sess.log.len().saturating_sub(n);
    Value::Array(sess.log[start..].iter().map(|r| r.to_json()).collect())
}
