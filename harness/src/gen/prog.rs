//! G-prog: structured programs as an AST, compiled to numbered BASIC text by `ast::Program::text`.
//! Pure function of the PRNG. Programs terminate by construction (bounded loops, forward jumps,
//! counter-guarded backward jumps, acyclic GOSUB graph) except for deliberate failure injections;
//! drivers still apply a turn cap.

use crate::model::ast::*;
use crate::util::Rng;
use std::collections::BTreeSet;

#[derive(Clone, Debug)]
pub struct GenOpts {
    pub inputs: bool,
    pub stops: bool,
    /// per-mille of programs that get one deliberate runtime failure
    pub failure_permille: u64,
    /// per-mille of programs that contain a `THEN GOSUB/FOR/INPUT/STOP .. ELSE` shape (known finding D5)
    pub kf_permille: u64,
    pub max_main_blocks: usize,
    /// read variables/arrays before assigning them (warnings workload)
    pub undeclared: bool,
    pub functions: bool,
    pub rnd: bool,
    /// make INPUT frequent and place it in THEN / ELSE / loops / subroutines
    pub input_boost: bool,
    /// k > 0: the program starts with `INPUT Z1 : .. : INPUT Zk` and most IF conditions test one Zi,
    /// so that a driver can force both branches by choosing the replies
    pub forced_conds: usize,
    /// per-mille of statements that get a deliberate typing mistake (C06)
    pub type_mistake_permille: u64,
}

impl Default for GenOpts {
    fn default() -> Self {
        GenOpts {
            inputs: false,
            stops: false,
            failure_permille: 150,
            kf_permille: 30,
            max_main_blocks: 8,
            undeclared: true,
            functions: true,
            rnd: true,
            input_boost: false,
            forced_conds: 0,
            type_mistake_permille: 0,
        }
    }
}

#[derive(Clone, Debug, Default)]
pub struct Generated {
    pub prog: Program,
    /// replies for INPUT statements, consumed in order (cyclically if the program asks for more)
    pub replies: Vec<String>,
    pub features: BTreeSet<&'static str>,
    pub has_kf_shape: bool,
    pub injected_failure: Option<&'static str>,
}

const NUM_VARS: &[&str] = &["A", "B", "C", "D", "X", "Y", "Z", "V", "W"];
const STR_VARS: &[&str] = &["A$", "B$", "N$"];
const LOOP_VARS: &[&str] = &["I", "J", "K", "L"];
const LABEL_BASE: u64 = 1_000_000;

struct Fun {
    name: &'static str,
    params: Vec<&'static str>,
    is_str: bool,
}

struct G<'r> {
    rng: &'r mut Rng,
    opts: GenOpts,
    lines: Vec<Vec<Stmt>>,
    /// label id -> line index
    labels: Vec<Option<usize>>,
    /// subroutine bodies still to be emitted: label id
    pending_subs: Vec<u64>,
    subs_made: usize,
    funs: Vec<Fun>,
    /// (name, dims) of DIMmed arrays; implicit arrays E (1-D), G (2-D) always usable
    arrays: Vec<(&'static str, Vec<usize>)>,
    active_loops: Vec<&'static str>,
    data_items: usize,
    reads_emitted: usize,
    counters: usize,
    out: Generated,
    in_sub: bool,
    budget: i32,
    leaf_label: Option<u64>,
    forced_used: bool,
}

impl<'r> G<'r> {
    fn feat(&mut self, f: &'static str) {
        self.out.features.insert(f);
    }
    fn new_label(&mut self) -> u64 {
        self.labels.push(None);
        LABEL_BASE + (self.labels.len() as u64 - 1)
    }
    fn place_label(&mut self, label: u64) {
        let idx = self.lines.len();
        self.labels[(label - LABEL_BASE) as usize] = Some(idx);
    }
    fn emit(&mut self, stmts: Vec<Stmt>) {
        self.lines.push(stmts);
    }

    // ------------------------------------------------------------ expressions

    fn small_lit(&mut self) -> Expr {
        let pool = ["0", "1", "2", "3", "4", "5", "7", "10", ".5", "1.5", "2.25", "100"];
        Expr::Num(self.rng.s(&pool).to_string())
    }

    fn num_var(&mut self) -> Expr {
        if !self.active_loops.is_empty() && self.rng.chance(1, 3) {
            let i = self.rng.usize(self.active_loops.len());
            return var(self.active_loops[i]);
        }
        var(self.rng.s(NUM_VARS))
    }

    fn index_for(&mut self, dim: usize) -> Expr {
        // mostly in range; now and then just beyond the end of this axis (BAD SUBSCRIPT on any axis)
        if self.rng.chance(1, 40) {
            return Expr::Num((dim as u64 + 1 + self.rng.below(3)).to_string());
        }
        match self.rng.below(10) {
            0..=5 => Expr::Num(self.rng.below(dim as u64 + 1).to_string()),
            6..=7 if !self.active_loops.is_empty() => {
                let i = self.rng.usize(self.active_loops.len());
                var(self.active_loops[i])
            }
            8 => Expr::Num(format!("{}.{}", self.rng.below(dim as u64 + 1), self.rng.below(10))),
            9 if self.rng.chance(1, 3) => {
                // a bare variable that nothing ever assigns as the whole subscript (reads as 0, warns when warnings are on)
                self.feat("subscript-unassigned-variable");
                var(self.rng.s(&["UQ", "UQ2"]))
            }
            _ => Expr::Num(self.rng.below(dim as u64 + 1).to_string()),
        }
    }

    fn num_cell(&mut self) -> Expr {
        let (name, dims): (&str, Vec<usize>) = if !self.arrays.is_empty() && self.rng.chance(2, 3) {
            let cands: Vec<(&'static str, Vec<usize>)> =
                self.arrays.iter().filter(|(n, _)| !n.ends_with('$')).cloned().collect();
            if cands.is_empty() {
                ("E", vec![10])
            } else {
                let (n, d) = cands[self.rng.usize(cands.len())].clone();
                (n, d)
            }
        } else if self.rng.chance(1, 6) {
            // an (implicit) array that shares its name with a scalar variable: two different objects
            self.feat("array-named-like-a-scalar");
            (self.rng.s(&["A", "X", "V"]), vec![10])
        } else if self.rng.coin() {
            ("E", vec![10])
        } else {
            ("G", vec![10, 10])
        };
        self.feat("array-cell");
        let idx = dims.iter().map(|d| self.index_for(*d)).collect();
        Expr::Cell(name.to_string(), idx)
    }

    fn num_expr(&mut self, depth: u32) -> Expr {
        if depth == 0 || self.rng.chance(2, 5) {
            return match self.rng.below(10) {
                0..=3 => self.small_lit(),
                4..=7 => self.num_var(),
                8 => self.num_cell(),
                _ => {
                    if self.opts.rnd && self.rng.chance(1, 3) {
                        self.feat("RND");
                        Expr::Rnd(Box::new(Expr::Num(self.rng.s(&["1", "1", "0", "5"]).to_string())))
                    } else {
                        self.small_lit()
                    }
                }
            };
        }
        match self.rng.below(16) {
            0..=2 => bin(Bin::Add, self.num_expr(depth - 1), self.num_expr(depth - 1)),
            3..=4 => bin(Bin::Sub, self.num_expr(depth - 1), self.num_expr(depth - 1)),
            5..=6 => bin(Bin::Mul, self.num_expr(depth - 1), self.num_expr(depth - 1)),
            7 => {
                // divisor is a non-zero literal (deliberate division by zero is a failure injection)
                let d = Expr::Num(self.rng.s(&["2", "4", ".5", "3", "10"]).to_string());
                bin(Bin::Div, self.num_expr(depth - 1), d)
            }
            8 => bin(Bin::Pow, self.num_expr(depth - 1), Expr::Num(self.rng.s(&["2", "0", "1", ".5", "3"]).to_string())),
            9 => Expr::Un(Un::Minus, Box::new(self.num_expr(depth - 1))),
            10 => Expr::Abs(Box::new(self.num_expr(depth - 1))),
            11 => Expr::Int(Box::new(self.num_expr(depth - 1))),
            12 => self.cond(depth - 1),
            13 if !self.funs.is_empty() && self.opts.functions => {
                let cands: Vec<usize> = (0..self.funs.len()).filter(|i| !self.funs[*i].is_str).collect();
                if cands.is_empty() {
                    return self.small_lit();
                }
                let fi = cands[self.rng.usize(cands.len())];
                let np = self.funs[fi].params.len();
                let pstr: Vec<bool> = self.funs[fi].params.iter().map(|p| p.ends_with('$')).collect();
                let name = self.funs[fi].name;
                let mut args = vec![];
                for k in 0..np {
                    args.push(if pstr[k] { self.str_expr(1) } else { self.num_expr(depth.min(2) - 1) });
                }
                self.feat("FN-call");
                Expr::Call(name.to_string(), args)
            }
            14 => Expr::Paren(Box::new(self.num_expr(depth - 1))),
            _ => Expr::Un(Un::Not, Box::new(self.num_expr(depth - 1))),
        }
    }

    fn str_expr(&mut self, _depth: u32) -> Expr {
        match self.rng.below(8) {
            0..=3 => strlit(self.rng.s(&["", "A", "HELLO", "x y", "ELSE", "a:b", "THEN 10", "é", "Z,Z", "  pad "])),
            4..=6 => var(self.rng.s(STR_VARS)),
            _ => {
                self.feat("array-cell");
                if self.arrays.iter().any(|(n, _)| *n == "R$") {
                    let d = self.arrays.iter().find(|(n, _)| *n == "R$").unwrap().1[0];
                    Expr::Cell("R$".into(), vec![self.index_for(d)])
                } else {
                    Expr::Cell("T$".into(), vec![self.index_for(10)])
                }
            }
        }
    }

    fn cond(&mut self, depth: u32) -> Expr {
        if self.opts.forced_conds > 0 && self.rng.chance(3, 4) {
            let z = var(&format!("Z{}", 1 + self.rng.usize(self.opts.forced_conds)));
            self.forced_used = true;
            return match self.rng.below(4) {
                0 => Expr::Un(Un::Not, Box::new(z)),
                1 => bin(Bin::Eq, z, num(1)),
                _ => z,
            };
        }
        let ops = [Bin::Eq, Bin::Ne, Bin::Lt, Bin::Le, Bin::Gt, Bin::Ge];
        match self.rng.below(10) {
            0..=4 => bin(*self.rng.pick(&ops), self.num_expr(depth), self.num_expr(depth)),
            5 => bin(*self.rng.pick(&ops), self.str_expr(1), self.str_expr(1)),
            6 => bin(Bin::And, self.cond(depth.saturating_sub(1)), self.cond(depth.saturating_sub(1))),
            7 => bin(Bin::Or, self.cond(depth.saturating_sub(1)), self.cond(depth.saturating_sub(1))),
            8 => Expr::Un(Un::Not, Box::new(Expr::Paren(Box::new(self.cond(depth.saturating_sub(1)))))),
            _ => self.num_var(),
        }
    }

    // ------------------------------------------------------------ simple statements

    fn print_stmt(&mut self) -> Stmt {
        let mut items = vec![];
        let n = 1 + self.rng.usize(3);
        for k in 0..n {
            if k > 0 {
                match self.rng.below(4) {
                    0 => items.push(PrintItem::Comma),
                    1 | 2 => items.push(PrintItem::Semi),
                    _ => {
                        // juxtaposition: only next to a string literal
                        let prev_is_str = matches!(items.last(), Some(PrintItem::Expr(Expr::Str(_))));
                        if !prev_is_str {
                            items.push(PrintItem::Semi);
                        }
                    }
                }
            }
            // after juxtaposition (no separator) the next item must start with a string literal or plain name
            let juxtaposed = k > 0 && matches!(items.last(), Some(PrintItem::Expr(_)));
            let e = if juxtaposed {
                if self.rng.coin() {
                    strlit(self.rng.s(&["=", " ", "j", ":"]))
                } else {
                    self.num_var()
                }
            } else if self.rng.chance(1, 3) {
                self.str_expr(1)
            } else {
                let e = self.num_expr(2);
                // a leading unary sign or parenthesis directly after another expression would be absorbed
                e
            };
            items.push(PrintItem::Expr(e));
        }
        if self.rng.chance(1, 5) {
            items.push(PrintItem::Semi);
            self.feat("PRINT-trailing-semicolon");
        }
        if self.rng.chance(1, 12) {
            items.push(PrintItem::Comma);
        }
        // separators between two expressions are always present unless juxtaposed with a string literal
        let items = fix_print_items(items);
        Stmt::Print { items, question_mark: self.rng.chance(1, 10) }
    }

    fn mistyped_stmt(&mut self) -> Stmt {
        self.feat("typed-mistake");
        let t = |n: &str| LValue::scalar(n);
        if !self.funs.is_empty() && self.rng.chance(1, 4) {
            // a call with too few / too many arguments, each of the right kind
            let fi = self.rng.usize(self.funs.len());
            let name = self.funs[fi].name.to_string();
            let params: Vec<bool> = self.funs[fi].params.iter().map(|p| p.ends_with('$')).collect();
            let n = if self.rng.coin() && params.len() > 1 { params.len() - 1 } else { params.len() + 1 };
            let args: Vec<Expr> = (0..n).map(|k| if params.get(k).copied().unwrap_or(false) { strlit("s") } else { num(1) }).collect();
            self.feat("typed-mistake-arity");
            return Stmt::Print { items: vec![PrintItem::Expr(Expr::Call(name, args))], question_mark: false };
        }
        match self.rng.below(12) {
            0 => Stmt::Let { target: t("X"), expr: strlit("s"), keyword: false },
            1 => Stmt::Let { target: t("A$"), expr: num(1), keyword: false },
            2 => Stmt::Print { items: vec![PrintItem::Expr(bin(Bin::Add, var("A$"), num(1)))], question_mark: false },
            // comparison / logical results are numbers whatever their operands are
            3 => Stmt::Let { target: t("X"), expr: bin(Bin::Eq, var("A$"), var("B$")), keyword: false },
            4 => Stmt::Let { target: t("N$"), expr: bin(Bin::Eq, var("N$"), var("B$")), keyword: false },
            5 => Stmt::Let { target: t("A$"), expr: Expr::Un(Un::Not, Box::new(strlit("A"))), keyword: false },
            6 => Stmt::Let { target: t("X"), expr: bin(Bin::And, strlit("A"), num(1)), keyword: false },
            7 => Stmt::Let { target: t("Y"), expr: Expr::Un(Un::Not, Box::new(var("B$"))), keyword: false },
            8 => Stmt::Let { target: t("B$"), expr: bin(Bin::Or, var("A$"), var("B$")), keyword: false },
            9 => Stmt::Print { items: vec![PrintItem::Expr(Expr::Cell("M".into(), vec![strlit("1")]))], question_mark: false },
            10 => Stmt::Let { target: t("X"), expr: bin(Bin::Lt, bin(Bin::Lt, var("A$"), var("B$")), var("N$")), keyword: false },
            _ => Stmt::Let { target: t("W"), expr: bin(Bin::Mul, var("N$"), num(2)), keyword: false },
        }
    }

    fn let_stmt(&mut self) -> Stmt {
        if self.opts.type_mistake_permille > 0 && self.rng.below(1000) < self.opts.type_mistake_permille {
            return self.mistyped_stmt();
        }
        let keyword = self.rng.chance(1, 5);
        match self.rng.below(10) {
            0..=5 => {
                let name = self.rng.s(NUM_VARS);
                Stmt::Let { target: LValue::scalar(name), expr: self.num_expr(2), keyword }
            }
            6..=7 => {
                let name = self.rng.s(STR_VARS);
                Stmt::Let { target: LValue::scalar(name), expr: self.str_expr(1), keyword }
            }
            _ => {
                let Expr::Cell(name, idx) = self.num_cell() else { unreachable!() };
                Stmt::Let { target: LValue { name, index: Some(idx) }, expr: self.num_expr(2), keyword }
            }
        }
    }

    fn read_stmt(&mut self) -> Stmt {
        self.feat("READ");
        let n = 1 + self.rng.usize(2);
        let mut ts = vec![];
        for _ in 0..n {
            self.reads_emitted += 1;
            // a later target whose subscript (or whose very name) depends on an earlier target of the same
            // READ: targets must be evaluated and stored one after the other, not all up front
            if let Some(prev) = ts.last().cloned() {
                let prev: LValue = prev;
                if prev.index.is_none() && !prev.name.ends_with('$') && self.rng.chance(1, 2) {
                    self.feat("READ-dependent-target");
                    let sub = if self.rng.coin() { Expr::Var(prev.name.clone()) } else {
                        bin(Bin::Add, Expr::Var(prev.name.clone()), Expr::Num("1".into())) };
                    let name = if self.rng.chance(1, 3) { "R$" } else { "E" };
                    ts.push(LValue { name: name.to_string(), index: Some(vec![sub]) });
                    continue;
                }
            }
            ts.push(if self.rng.chance(3, 5) {
                // a string target accepts every item
                LValue::scalar(self.rng.s(STR_VARS))
            } else if self.rng.chance(1, 4) {
                let Expr::Cell(name, idx) = self.num_cell() else { unreachable!() };
                LValue { name, index: Some(idx) }
            } else {
                LValue::scalar(self.rng.s(NUM_VARS))
            });
        }
        Stmt::Read(ts)
    }

    fn input_stmt(&mut self) -> Stmt {
        self.feat("INPUT");
        let (target, numeric) = match self.rng.below(6) {
            0..=2 => (LValue::scalar(self.rng.s(NUM_VARS)), true),
            3..=4 => (LValue::scalar(self.rng.s(STR_VARS)), false),
            _ => {
                if self.opts.input_boost && self.rng.chance(1, 3) {
                    // a subscript with an effect (advances RND) or in error: it must be evaluated exactly once,
                    // when the reply is stored, not when the request is issued
                    self.feat("INPUT-subscript-with-effect");
                    let idx = match self.rng.below(3) {
                        0 if self.opts.rnd => Expr::Int(Box::new(bin(Bin::Mul, Expr::Rnd(Box::new(num(1))), num(3)))),
                        1 => bin(Bin::Sub, num(0), num(1)),
                        _ => bin(Bin::Add, var("UQ"), num(1)),
                    };
                    (LValue { name: "E".into(), index: Some(vec![idx]) }, true)
                } else {
                    let Expr::Cell(name, idx) = self.num_cell() else { unreachable!() };
                    (LValue { name, index: Some(idx) }, true)
                }
            }
        };
        // replies for one execution of this statement (loops re-use the script cyclically)
        let reenters = if numeric && self.rng.chance(1, 4) { 1 + self.rng.usize(2) } else { 0 };
        for _ in 0..reenters {
            self.out.replies.push(self.rng.s(&["abc", "", "x1", "\"12\"", "  ", "twelve"]).to_string());
        }
        let good = if numeric {
            match self.rng.below(6) {
                0 => format!("{}", self.rng.range(-20, 20)),
                1 => format!("{}.{}", self.rng.below(10), self.rng.below(100)),
                2 => format!(" {} ", self.rng.below(10)),
                3 => format!("{},{}", self.rng.below(10), self.rng.below(10)),
                4 => format!("{}: more", self.rng.below(10)),
                _ => format!("{}", self.rng.below(5)),
            }
        } else {
            self.rng.s(&["hello", "", " padded ", "\"quoted, text\"", "a,b", "7", "x:y", "\"  keep  \"", "2.50",
                // numerals given to a string variable are stored the way the number prints: boundaries of the integer types
                "10000000000000000000", "4611686018427387904", "-0", "123456789012345678901234567890", "9007199254740993",
                "18446744073709551616", "-0.0", "007", "+5", "-9223372036854775809", ".5", "100000000000000000000000",
                // blanks and tabs at the end of a reply, also behind a quote that is never closed
                "\"ADA  ", "\"open\t", "tail  ", "\" \t"]).to_string()
        };
        let good = if self.rng.chance(1, 40) {
            // replies longer than any fixed-size input buffer (also with a multi-byte character across byte 239)
            match (numeric, self.rng.below(3)) {
                (true, 0) => format!("{}125", "0".repeat(238)),
                (true, _) => format!("{}7 , surplus", " ".repeat(250)),
                (false, 0) => "x".repeat(300),
                (false, 1) => format!("{}é{}", "y".repeat(238), "z".repeat(20)),
                (false, _) => format!("{}word, and more", " ".repeat(240)),
            }
        } else {
            good
        };
        let good = if numeric && self.rng.chance(1, 8) {
            self.rng.s(&["10000000000000000000", "-0", "123456789012345678901234567890", "9007199254740993", "+5", ".5", "007", "-.25"]).to_string()
        } else {
            good
        };
        self.out.replies.push(good);
        Stmt::Input(target)
    }

    fn simple_stmt(&mut self) -> Stmt {
        if self.opts.inputs && self.opts.input_boost && self.rng.chance(1, 4) {
            return self.input_stmt();
        }
        match self.rng.below(20) {
            0..=6 => self.print_stmt(),
            7..=12 => self.let_stmt(),
            13..=14 if self.data_items > 0 => self.read_stmt(),
            15 if self.data_items > 0 => {
                self.feat("RESTORE");
                Stmt::Restore
            }
            16 if self.opts.inputs => self.input_stmt(),
            17 if self.opts.inputs => self.input_stmt(),
            _ => self.print_stmt(),
        }
    }

    /// a statement usable as THEN/ELSE branch (no IF, no FOR)
    fn branch_stmt_in(&mut self, allow_input: bool) -> Stmt {
        if allow_input && self.opts.inputs && self.rng.chance(if self.opts.input_boost { 2 } else { 1 }, 6) {
            self.feat("INPUT-in-branch");
            return self.input_stmt();
        }
        self.branch_stmt()
    }

    fn branch_stmt(&mut self) -> Stmt {
        match self.rng.below(12) {
            0..=4 => self.print_stmt(),
            5..=8 => self.let_stmt(),
            9 if self.data_items > 0 => self.read_stmt(),
            _ => self.print_stmt(),
        }
    }

    // ------------------------------------------------------------ blocks

    fn block(&mut self, depth: u32) {
        let n = 1 + self.rng.usize(3);
        for _ in 0..n {
            if self.budget <= 0 {
                break;
            }
            self.budget -= 1;
            match self.rng.below(24) {
                0..=7 => self.line_of_simples(),
                8..=10 => self.if_line(depth),
                11..=13 if depth < 3 => self.for_block(depth),
                14..=15 => self.gosub_line(),
                16 => self.forward_skip(depth),
                17 => self.guarded_backjump(),
                18 if self.opts.stops => {
                    self.feat("STOP");
                    let mut v = vec![];
                    if self.rng.coin() {
                        v.push(self.simple_stmt());
                    }
                    v.push(Stmt::Stop);
                    if self.rng.coin() {
                        v.push(self.simple_stmt());
                    }
                    self.emit(v);
                }
                19 => {
                    let text = self.rng.s(&[" note", "", " : PRINT 1", " \"quote", "é"]).to_string();
                    let mut v = vec![];
                    if self.rng.coin() {
                        v.push(self.simple_stmt());
                    }
                    v.push(Stmt::Rem(text));
                    self.feat("REM");
                    self.emit(v);
                }
                20 => self.data_line(),
                21 if !self.funs.is_empty() && self.opts.type_mistake_permille == 0 => {
                    // a second definition of an existing function (same name, same parameter list, another body)
                    // executed later in the same run replaces the first one
                    let fi = self.rng.usize(self.funs.len());
                    let (name, params, is_str) = (self.funs[fi].name, self.funs[fi].params.clone(), self.funs[fi].is_str);
                    let body = if is_str {
                        if params.contains(&"A$") { var("A$") } else { Expr::Str(self.rng.s(&["again", "", "R"]).to_string()) }
                    } else {
                        bin(Bin::Add, bin(Bin::Mul, var(params[0]), num(self.rng.range(2, 9))), num(self.rng.range(100, 900)))
                    };
                    self.feat("DEF-redefinition");
                    let mut line = vec![Stmt::Def { name: name.to_string(), params: params.iter().map(|s| s.to_string()).collect(), body }];
                    if self.rng.coin() {
                        line.push(self.print_stmt());
                    }
                    self.emit(line);
                }
                _ => self.line_of_simples(),
            }
        }
    }

    fn line_of_simples(&mut self) {
        let n = 1 + self.rng.usize(3);
        let mut v = vec![];
        for _ in 0..n {
            v.push(self.simple_stmt());
        }
        if n > 1 {
            self.feat("multi-statement-line");
        }
        self.emit(v);
    }

    fn data_line(&mut self) {
        let n = 1 + self.rng.usize(4);
        let mut items = vec![];
        for _ in 0..n {
            items.push(match self.rng.below(8) {
                0..=4 => DataItem::Num(self.rng.s(&["1", "2", "-3", "4.5", "0", "10", "-0.25", "7", "1.50", "007"]).to_string()),
                5 => DataItem::Str(self.rng.s(&["HELLO", "foo bar", "X1", "é"]).to_string(), false),
                _ => DataItem::Str(self.rng.s(&["quoted", "a, b", "c:d", "", "  sp  ", "12"]).to_string(), true),
            });
        }
        self.data_items += n;
        self.feat("DATA");
        let mut v = vec![];
        if self.rng.chance(1, 4) {
            v.push(self.simple_stmt());
        }
        v.push(Stmt::Data(items));
        if self.rng.chance(1, 4) {
            // a second (third) DATA statement on the same line: READ goes through them in order
            for _ in 0..1 + self.rng.usize(2) {
                let m = 1 + self.rng.usize(3);
                let mut more = vec![];
                for _ in 0..m {
                    more.push(match self.rng.below(4) {
                        0..=2 => DataItem::Num(self.rng.s(&["11", "12", "-13", "14.5", "0"]).to_string()),
                        _ => DataItem::Str(self.rng.s(&["second", "x:y", ""]).to_string(), true),
                    });
                }
                self.data_items += m;
                if self.rng.chance(1, 3) {
                    v.push(self.simple_stmt());
                }
                v.push(Stmt::Data(more));
            }
            self.feat("DATA-twice-on-a-line");
        }
        if self.rng.chance(1, 4) {
            v.push(self.print_stmt());
        } else if self.opts.type_mistake_permille > 0 && self.rng.chance(1, 6) {
            let m = self.mistyped_stmt();
            v.push(m);
        }
        self.emit(v);
    }

    fn if_line(&mut self, depth: u32) {
        self.feat("IF");
        let cond = self.cond(1);
        let mut line: Vec<Stmt> = vec![];
        if self.rng.chance(1, 4) {
            line.push(self.simple_stmt());
        }
        match self.rng.below(12) {
            0..=2 => {
                // IF c THEN s [: t]
                let then = Branch::Stmt(Box::new(self.branch_stmt_in(true)));
                line.push(Stmt::If { cond, then, els: None });
                if self.rng.coin() {
                    line.push(self.simple_stmt());
                    self.feat("IF-then-colon");
                }
            }
            3..=5 => {
                self.feat("IF-ELSE");
                let then = Branch::Stmt(Box::new(self.branch_stmt()));
                let els = Some(Branch::Stmt(Box::new(self.branch_stmt_in(true))));
                line.push(Stmt::If { cond, then, els });
                if self.rng.coin() {
                    line.push(self.simple_stmt());
                    self.feat("IF-ELSE-colon");
                }
            }
            6 => {
                // forward line-number form
                self.feat("IF-THEN-line");
                let l1 = self.new_label();
                if self.rng.coin() {
                    let l2 = self.new_label();
                    line.push(Stmt::If { cond, then: Branch::Line(l1), els: Some(Branch::Line(l2)) });
                    self.emit(line);
                    self.line_of_simples();
                    self.place_label(l2);
                    self.line_of_simples();
                    self.place_label(l1);
                    self.line_of_simples();
                } else {
                    line.push(Stmt::If { cond, then: Branch::Line(l1), els: None });
                    self.emit(line);
                    self.line_of_simples();
                    self.place_label(l1);
                    self.line_of_simples();
                }
                return;
            }
            7 => {
                // IF c THEN GOTO L (forward)
                let l1 = self.new_label();
                line.push(Stmt::If { cond, then: Branch::Stmt(Box::new(Stmt::Goto(l1))), els: None });
                self.emit(line);
                self.block(depth + 1);
                self.place_label(l1);
                self.line_of_simples();
                return;
            }
            8 => {
                // nested IF without ELSE
                self.feat("IF-nested");
                let inner = Stmt::If { cond: self.cond(1), then: Branch::Stmt(Box::new(self.branch_stmt())), els: None };
                line.push(Stmt::If { cond, then: Branch::Stmt(Box::new(inner)), els: None });
            }
            9 => {
                // ELSE IF chain
                self.feat("ELSE-IF");
                let inner = Stmt::If {
                    cond: self.cond(1),
                    then: Branch::Stmt(Box::new(self.branch_stmt())),
                    els: Some(Branch::Stmt(Box::new(self.branch_stmt()))),
                };
                line.push(Stmt::If {
                    cond,
                    then: Branch::Stmt(Box::new(self.branch_stmt())),
                    els: Some(Branch::Stmt(Box::new(inner))),
                });
            }
            10 => {
                // THEN GOSUB (no ELSE) with trailing statements; ELSE GOSUB
                self.feat("IF-GOSUB");
                let sub = self.sub_target();
                if self.rng.coin() {
                    line.push(Stmt::If { cond, then: Branch::Stmt(Box::new(Stmt::Gosub(sub))), els: None });
                } else {
                    line.push(Stmt::If {
                        cond,
                        then: Branch::Stmt(Box::new(self.branch_stmt())),
                        els: Some(Branch::Stmt(Box::new(Stmt::Gosub(sub)))),
                    });
                }
                if self.rng.coin() {
                    line.push(self.simple_stmt());
                }
            }
            _ => {
                if self.in_sub && self.rng.coin() {
                    self.feat("IF-RETURN");
                    line.push(Stmt::If { cond, then: Branch::Stmt(Box::new(Stmt::Return)), els: None });
                } else {
                    let then = Branch::Stmt(Box::new(self.branch_stmt()));
                    line.push(Stmt::If { cond, then, els: None });
                }
            }
        }
        self.emit(line);
    }

    fn for_block(&mut self, depth: u32) {
        let free: Vec<&'static str> = LOOP_VARS.iter().copied().filter(|v| !self.active_loops.contains(v)).collect();
        if free.is_empty() {
            return self.line_of_simples();
        }
        self.feat("FOR");
        let v = free[self.rng.usize(free.len())];
        let (from, to, step): (Expr, Expr, Option<Expr>) = match self.rng.below(10) {
            8..=9 => {
                // bounds and step held in variables: a plain variable name directly in front of TO / STEP / the
                // end of the statement (keyword recognition after an identifier)
                self.feat("FOR-variable-bounds");
                let lo = self.rng.s(&["V", "W"]);
                let hi = self.rng.s(&["Z", "Y"]);
                let st = self.rng.s(&["D", "C"]);
                let (a, b, c) = match self.rng.below(3) { 0 => (1, 5, 2), 1 => (4, 1, -1), _ => (0, 3, 1) };
                self.emit(vec![
                    Stmt::Let { target: LValue::scalar(lo), expr: num(a), keyword: false },
                    Stmt::Let { target: LValue::scalar(hi), expr: num(b), keyword: false },
                    Stmt::Let { target: LValue::scalar(st), expr: num(c), keyword: false },
                ]);
                let step = match self.rng.below(3) { 0 => None, 1 => Some(var(st)), _ => Some(num(c)) };
                let step = if step.is_none() && a > b { Some(var(st)) } else { step };
                (if self.rng.coin() { var(lo) } else { num(a) }, var(hi), step)
            }
            0..=2 => (num(self.rng.range(0, 2)), num(self.rng.range(2, 4)), None),
            3 => (num(self.rng.range(3, 5)), num(self.rng.range(0, 2)), Some(num(-1))),
            4 => (num(1), num(2), Some(Expr::Num(".5".into()))),
            5 => {
                self.feat("FOR-zero-trip");
                (num(3), num(1), None) // body still runs once
            }
            6 => (num(0), num(4), Some(num(2))),
            _ => (self.small_lit(), bin(Bin::Add, self.small_lit(), num(1)), None),
        };
        let head = Stmt::For { var: v.to_string(), from, to, step };
        if self.rng.chance(1, 4) {
            // single-line loop
            self.feat("FOR-single-line");
            if self.rng.chance(1, 3) {
                // delay loop: no body at all
                self.feat("FOR-empty-body");
                let mut line = vec![head, Stmt::Next(v.to_string())];
                if self.rng.coin() {
                    line.push(self.simple_stmt());
                }
                self.emit(line);
                return;
            }
            self.active_loops.push(v);
            let body = self.simple_stmt();
            self.active_loops.pop();
            self.emit(vec![head, body, Stmt::Next(v.to_string())]);
            return;
        }
        if self.rng.chance(1, 4) {
            let pre = self.simple_stmt();
            self.emit(vec![pre, head]);
            self.feat("FOR-mid-line");
        } else if self.rng.chance(1, 5) {
            // `FOR ... :` — the loop resumes at a `:` with nothing behind it
            self.feat("FOR-trailing-colon");
            self.emit(vec![head, Stmt::Empty]);
        } else {
            self.emit(vec![head]);
        }
        self.active_loops.push(v);
        self.block(depth + 1);
        // optional: inner loop abandoned by NEXT of the outer variable
        if depth < 2 && self.rng.chance(1, 6) {
            let free2: Vec<&'static str> = LOOP_VARS.iter().copied().filter(|x| !self.active_loops.contains(x)).collect();
            if let Some(w) = free2.first().copied() {
                self.feat("NEXT-outer-abandons-inner");
                self.emit(vec![Stmt::For { var: w.to_string(), from: num(1), to: num(3), step: None }]);
                self.active_loops.push(w);
                self.line_of_simples();
                self.active_loops.pop();
            }
        }
        self.active_loops.pop();
        if self.rng.chance(1, 5) {
            let post = self.simple_stmt();
            self.emit(vec![Stmt::Next(v.to_string()), post]);
        } else {
            self.emit(vec![Stmt::Next(v.to_string())]);
        }
    }

    fn sub_target(&mut self) -> u64 {
        if self.in_sub {
            // inside a subroutine only call subroutines emitted later (keeps the call graph acyclic)
            if self.subs_made < 7 {
                let l = self.new_label();
                self.pending_subs.push(l);
                self.subs_made += 1;
                return l;
            }
            return self.leaf();
        }
        // main program: reuse a pending sub or make a new one (bounded)
        if self.subs_made < 5 && (self.pending_subs.is_empty() || self.rng.coin()) {
            let l = self.new_label();
            self.pending_subs.push(l);
            self.subs_made += 1;
            l
        } else if !self.pending_subs.is_empty() {
            let i = self.rng.usize(self.pending_subs.len());
            self.pending_subs[i]
        } else {
            self.leaf()
        }
    }

    fn leaf(&mut self) -> u64 {
        if let Some(l) = self.leaf_label {
            return l;
        }
        let l = self.new_label();
        self.leaf_label = Some(l);
        l
    }

    fn gosub_line(&mut self) {
        self.feat("GOSUB");
        let t = self.sub_target();
        let mut line = vec![];
        if self.rng.chance(1, 3) {
            line.push(self.simple_stmt());
        }
        line.push(Stmt::Gosub(t));
        if self.rng.chance(1, 3) {
            line.push(self.simple_stmt());
            self.feat("GOSUB-mid-line");
        } else if self.rng.chance(1, 5) {
            // `GOSUB n :` — RETURN comes back to a `:` with nothing behind it
            line.push(Stmt::Empty);
            self.feat("GOSUB-trailing-colon");
        }
        self.emit(line);
    }

    fn forward_skip(&mut self, depth: u32) {
        self.feat("GOTO-forward");
        let l = self.new_label();
        self.emit(vec![Stmt::Goto(l)]);
        self.line_of_simples(); // dead code
        let _ = depth;
        self.place_label(l);
        self.line_of_simples();
    }

    fn guarded_backjump(&mut self) {
        if self.counters >= 3 || !self.active_loops.is_empty() {
            return self.line_of_simples();
        }
        self.feat("GOTO-backward-guarded");
        let c = ["C1", "C2", "C3"][self.counters];
        self.counters += 1;
        let l = self.new_label();
        self.place_label(l);
        self.emit(vec![Stmt::Let {
            target: LValue::scalar(c),
            expr: bin(Bin::Add, var(c), num(1)),
            keyword: false,
        }]);
        self.line_of_simples();
        let limit = num(self.rng.range(2, 4));
        let then = if self.rng.coin() { Branch::Line(l) } else { Branch::Stmt(Box::new(Stmt::Goto(l))) };
        self.emit(vec![Stmt::If { cond: bin(Bin::Lt, var(c), limit), then, els: None }]);
    }

    fn kf_line(&mut self) {
        // THEN <suspending or transferring statement> ELSE ...   (known finding D5)
        self.out.has_kf_shape = true;
        self.feat("KF-then-transfer-else");
        let cond = if self.rng.chance(3, 4) { num(1) } else { self.cond(1) };
        let then = match self.rng.below(4) {
            0 | 1 => Stmt::Gosub(self.sub_target()),
            2 if self.opts.inputs => self.input_stmt(),
            3 if self.opts.stops => Stmt::Stop,
            _ => Stmt::Gosub(self.sub_target()),
        };
        let els = Some(Branch::Stmt(Box::new(self.print_stmt())));
        let mut line = vec![Stmt::If { cond, then: Branch::Stmt(Box::new(then)), els }];
        if self.rng.coin() {
            line.push(self.print_stmt());
        }
        self.emit(line);
    }

    fn inject_failure(&mut self) {
        let kind = self.rng.below(17);
        let (name, stmts): (&'static str, Vec<Stmt>) = match kind {
            // an array that came into being by being READ (never stored to) exists: a later DIM of it is a re-DIM
            15 => ("dim-after-implicit-read", vec![self.print_of(Expr::Cell("H7".into(), vec![num(3)])), Stmt::Dim("H7".into(), vec![num(5)])]),
            16 => ("dim-after-implicit-read-2d", vec![Stmt::Let { target: LValue::scalar("A$"), expr: Expr::Cell("H6$".into(), vec![num(1), num(2)]), keyword: false }, Stmt::Dim("H6$".into(), vec![num(1), num(2)])]),
            0 => ("undef-goto", vec![Stmt::Goto(99_999)]),
            1 => ("undef-gosub", vec![Stmt::Gosub(99_998)]),
            2 => ("return-without-gosub", vec![Stmt::Return]),
            3 => ("next-without-for", vec![Stmt::Next("Q9".into())]),
            4 => ("redim", vec![Stmt::Dim("M".into(), vec![num(3)]), Stmt::Dim("M".into(), vec![num(3)])]),
            5 => ("bad-subscript", vec![Stmt::Let { target: LValue { name: "E".into(), index: Some(vec![num(11)]) }, expr: num(1), keyword: false }]),
            6 => ("negative-subscript", vec![self.print_of(Expr::Cell("E".into(), vec![num(-1)]))]),
            7 => ("division-by-zero", vec![Stmt::Let { target: LValue::scalar("X"), expr: bin(Bin::Div, self.num_expr(1), bin(Bin::Sub, num(2), num(2))), keyword: false }]),
            8 => ("type-mismatch-let", vec![Stmt::Let { target: LValue::scalar("X"), expr: strlit("s"), keyword: false }]),
            9 => ("type-mismatch-str", vec![Stmt::Let { target: LValue::scalar("A$"), expr: num(1), keyword: false }]),
            10 => ("out-of-data", vec![Stmt::Restore, Stmt::Read((0..self.data_items + 1).map(|_| LValue::scalar("N$")).collect())]),
            11 => ("data-type-mismatch", {
                self.data_items += 1;
                vec![Stmt::Data(vec![DataItem::Str("WORD".into(), false)]), Stmt::Restore,
                     Stmt::Read((0..self.data_items).map(|_| LValue::scalar("X")).collect())]
            }),
            12 => ("wrong-arity", vec![self.print_of(Expr::Cell("E".into(), vec![num(1), num(1)])), self.print_of(Expr::Cell("E".into(), vec![num(1)]))]),
            13 => {
                if self.rng.coin() {
                    ("array-too-large", vec![Stmt::Dim("H".into(), vec![num(100), num(100)])])
                } else {
                    // the first touch of an array is a rejected (mistyped) store; a later DIM must still succeed
                    let (name, v) = if self.rng.coin() { ("H8", strlit("X")) } else { ("H8$", num(5)) };
                    ("mistyped-first-touch", vec![
                        Stmt::Let { target: LValue { name: name.into(), index: Some(vec![num(1)]) }, expr: v, keyword: false },
                    ])
                }
            }
            _ => ("four-dim-implicit", vec![self.print_of(Expr::Cell("F".into(), vec![num(1), num(1), num(1), num(1)]))]),
        };
        self.out.injected_failure = Some(name);
        self.feat("injected-failure");
        // "wrong-arity": first use creates 2-D array E?? E may already exist as 1-D: either order fails with BAD SUBSCRIPT
        for s in stmts {
            self.emit(vec![s]);
        }
    }

    fn print_of(&mut self, e: Expr) -> Stmt {
        Stmt::Print { items: vec![PrintItem::Expr(e)], question_mark: false }
    }
}

/// make sure two expressions are never adjacent unless one side is a string literal boundary that
/// cannot be absorbed (string literal followed by a plain name / string literal)
fn fix_print_items(items: Vec<PrintItem>) -> Vec<PrintItem> {
    let mut out: Vec<PrintItem> = vec![];
    for it in items {
        if let (Some(PrintItem::Expr(prev)), PrintItem::Expr(next)) = (out.last(), &it) {
            let prev_ok = matches!(prev, Expr::Str(_));
            let next_ok = matches!(next, Expr::Str(_) | Expr::Var(_));
            let prev_ok2 = matches!(prev, Expr::Var(_)) && matches!(next, Expr::Str(_));
            if !((prev_ok && next_ok) || prev_ok2) {
                out.push(PrintItem::Semi);
            }
        }
        out.push(it);
    }
    out
}

pub fn generate(rng: &mut Rng, opts: &GenOpts) -> Generated {
    let mut g = G {
        rng,
        opts: opts.clone(),
        lines: vec![],
        labels: vec![],
        pending_subs: vec![],
        subs_made: 0,
        funs: vec![],
        arrays: vec![],
        active_loops: vec![],
        data_items: 0,
        reads_emitted: 0,
        counters: 0,
        out: Generated::default(),
        in_sub: false,
        budget: 0,
        leaf_label: None,
        forced_used: false,
    };
    g.budget = 2 + g.rng.usize(opts.max_main_blocks) as i32;

    if opts.forced_conds > 0 {
        let line: Vec<Stmt> = (1..=opts.forced_conds).map(|i| Stmt::Input(LValue::scalar(&format!("Z{}", i)))).collect();
        g.emit(line);
    }
    // functions first (each defined once, before any use)
    if opts.functions && g.rng.chance(1, 2) {
        let n = 1 + g.rng.usize(3);
        let names: [(&'static str, bool); 4] = [("FNA", false), ("FNB", false), ("FNC", false), ("FND$", true)];
        for k in 0..n {
            let (name, is_str) = names[k.min(3)];
            let params: Vec<&'static str> = match g.rng.below(5) {
                0..=2 => vec!["X"],
                3 => vec!["X", "Y"],
                _ => vec!["P", "A$"],
            };
            let flip = opts.type_mistake_permille > 0 && g.rng.chance(1, 5);
            if flip {
                g.feat("typed-mistake-function-body");
            }
            let body = if is_str != flip {
                if params.contains(&"A$") { var("A$") } else { g.str_expr(1) }
            } else {
                // may reference globals, parameters of callers (dynamic scoping) and earlier functions
                let mut e = g.num_expr(2);
                if g.rng.coin() {
                    e = bin(Bin::Add, var(params[0]), e);
                }
                e
            };
            g.feat("DEF");
            let mut line = vec![Stmt::Def { name: name.to_string(), params: params.iter().map(|s| s.to_string()).collect(), body }];
            if g.rng.chance(1, 4) {
                line.push(g.print_stmt());
                g.feat("DEF-then-colon");
            }
            g.emit(line);
            g.funs.push(Fun { name, params, is_str });
        }
    }
    // DIMs
    if g.rng.chance(2, 3) {
        let cands: [(&'static str, Vec<usize>); 4] = [("M", vec![5]), ("P", vec![3, 4]), ("Q", vec![2, 2, 3]), ("R$", vec![6])];
        for (name, dims) in cands {
            if g.rng.coin() {
                g.feat("DIM");
                let idx = dims.iter().map(|d| num(*d as i64)).collect();
                g.emit(vec![Stmt::Dim(name.to_string(), idx)]);
                g.arrays.push((name, dims));
            }
        }
    }
    // give some variables interesting values
    if g.rng.chance(2, 3) {
        let n = 1 + g.rng.usize(4);
        let mut line = vec![];
        for _ in 0..n {
            if g.rng.chance(1, 4) {
                let v = g.rng.s(STR_VARS);
                let e = strlit(g.rng.s(&["HI", "A", "zz", "é", "10"]));
                line.push(Stmt::Let { target: LValue::scalar(v), expr: e, keyword: false });
            } else {
                let v = g.rng.s(NUM_VARS);
                let e = match g.rng.below(4) {
                    0 => num(g.rng.range(-5, 9)),
                    1 => Expr::Num(g.rng.s(&["1.5", ".25", "2.75", "100", "12.5"]).to_string()),
                    _ => num(g.rng.range(1, 6)),
                };
                line.push(Stmt::Let { target: LValue::scalar(v), expr: e, keyword: false });
            }
        }
        g.emit(line);
    }
    if g.rng.chance(1, 2) {
        g.data_line();
    }
    let inject_at_start = g.rng.below(1000) < opts.failure_permille;
    let kf = g.rng.below(1000) < opts.kf_permille;
    let inject_pos = g.rng.below(3);
    if inject_at_start && inject_pos == 0 {
        g.inject_failure();
    }
    // main
    while g.budget > 0 {
        g.block(0);
        if kf && !g.out.has_kf_shape && g.rng.coin() {
            g.kf_line();
        }
        if inject_at_start && inject_pos == 1 && g.out.injected_failure.is_none() && g.rng.coin() {
            g.inject_failure();
        }
    }
    if kf && !g.out.has_kf_shape {
        g.kf_line();
    }
    if inject_at_start && g.out.injected_failure.is_none() {
        g.inject_failure();
    }
    if g.rng.chance(1, 3) {
        g.data_line();
    }
    g.emit(vec![Stmt::End]);
    // subroutines
    g.in_sub = true;
    let mut k = 0;
    while k < g.pending_subs.len() {
        let l = g.pending_subs[k];
        k += 1;
        g.place_label(l);
        g.budget = 1 + g.rng.usize(3) as i32;
        // subroutines may run inside the caller's loops; NEXT inside is legal but keep it simple
        let saved = std::mem::take(&mut g.active_loops);
        g.block(2);
        g.active_loops = saved;
        if g.rng.chance(1, 4) {
            let s = g.simple_stmt();
            g.emit(vec![s, Stmt::Return]);
        } else {
            g.emit(vec![Stmt::Return]);
        }
    }
    if let Some(l) = g.leaf_label {
        g.place_label(l);
        g.emit(vec![Stmt::Print { items: vec![PrintItem::Expr(strlit("leaf"))], question_mark: false }, Stmt::Return]);
    }
    if g.rng.chance(1, 4) {
        g.data_line();
    }

    // layout: line numbers; sometimes dense, sometimes sparse
    let stride = *g.rng.pick(&[10u64, 10, 10, 5, 1, 100]);
    let base = *g.rng.pick(&[10u64, 10, 100, 1, 0, 1000]);
    let numbers: Vec<u64> = (0..g.lines.len() as u64).map(|i| base + i * stride).collect();
    let labels = g.labels.clone();
    let resolve = |t: u64| -> u64 {
        if t >= LABEL_BASE && t < LABEL_BASE + labels.len() as u64 {
            match labels[(t - LABEL_BASE) as usize] {
                Some(idx) if idx < numbers.len() => numbers[idx],
                // label placed after the last line (cannot happen: END follows) or never placed
                _ => 99_997,
            }
        } else {
            t
        }
    };
    fn fix(s: &mut Stmt, resolve: &dyn Fn(u64) -> u64) {
        match s {
            Stmt::Goto(t) | Stmt::Gosub(t) => *t = resolve(*t),
            Stmt::If { then, els, .. } => {
                for b in [Some(then), els.as_mut()].into_iter().flatten() {
                    match b {
                        Branch::Line(t) => *t = resolve(*t),
                        Branch::Stmt(inner) => fix(inner, resolve),
                    }
                }
            }
            _ => {}
        }
    }
    let mut prog = Program::default();
    for (i, mut stmts) in std::mem::take(&mut g.lines).into_iter().enumerate() {
        for s in stmts.iter_mut() {
            fix(s, &resolve);
        }
        prog.lines.push(Line { number: numbers[i], stmts });
    }
    g.out.prog = prog;
    if !g.out.replies.iter().any(|r| crate::model::prog::plain_decimal(r.trim()).is_some()) {
        // every pending INPUT is eventually satisfied by a plain number
        g.out.replies.push("5".into());
    }
    g.out
}

/// Dedicated cap-chasing programs (C03 runtime failures at depth 32, C16 chasers).
pub fn recursion_program(kind: u64) -> Program {
    let mut p = Program::default();
    match kind % 4 {
        0 => {
            // GOSUB self-recursion: fails at depth 33 with OUT OF MEMORY in the subroutine's line
            p.lines.push(Line { number: 10, stmts: vec![Stmt::Let { target: LValue::scalar("N"), expr: num(0), keyword: false }] });
            p.lines.push(Line { number: 20, stmts: vec![Stmt::Gosub(100)] });
            p.lines.push(Line { number: 30, stmts: vec![Stmt::End] });
            p.lines.push(Line { number: 100, stmts: vec![
                Stmt::Let { target: LValue::scalar("N"), expr: bin(Bin::Add, var("N"), num(1)), keyword: false },
                Stmt::Print { items: vec![PrintItem::Expr(var("N")), PrintItem::Semi], question_mark: false },
            ] });
            p.lines.push(Line { number: 110, stmts: vec![Stmt::Gosub(100)] });
            p.lines.push(Line { number: 120, stmts: vec![Stmt::Return] });
        }
        1 => {
            // FN self-recursion
            p.lines.push(Line { number: 10, stmts: vec![Stmt::Def { name: "FNA".into(), params: vec!["X".into()], body: bin(Bin::Add, Expr::Call("FNA".into(), vec![bin(Bin::Add, var("X"), num(1))]), num(1)) }] });
            p.lines.push(Line { number: 20, stmts: vec![Stmt::Print { items: vec![PrintItem::Expr(strlit("before"))], question_mark: false }] });
            p.lines.push(Line { number: 30, stmts: vec![Stmt::Print { items: vec![PrintItem::Expr(Expr::Call("FNA".into(), vec![num(1)]))], question_mark: false }] });
        }
        2 => {
            // exactly 32 nested GOSUBs succeed, then unwind
            p.lines.push(Line { number: 10, stmts: vec![Stmt::Gosub(100)] });
            p.lines.push(Line { number: 20, stmts: vec![Stmt::Print { items: vec![PrintItem::Expr(strlit("done")), PrintItem::Expr(var("N"))], question_mark: false }, Stmt::End] });
            p.lines.push(Line { number: 100, stmts: vec![
                Stmt::Let { target: LValue::scalar("N"), expr: bin(Bin::Add, var("N"), num(1)), keyword: false },
                Stmt::If { cond: bin(Bin::Lt, var("N"), num(32)), then: Branch::Stmt(Box::new(Stmt::Gosub(100))), els: None },
            ] });
            p.lines.push(Line { number: 110, stmts: vec![Stmt::Return] });
        }
        _ => {
            // 31 GOSUB frames + a two-level function call: the 33rd frame fails inside the DEF line
            p.lines.push(Line { number: 5, stmts: vec![Stmt::Def { name: "FNA".into(), params: vec!["X".into()], body: bin(Bin::Mul, var("X"), num(2)) }] });
            p.lines.push(Line { number: 6, stmts: vec![Stmt::Def { name: "FNB".into(), params: vec!["Y".into()], body: bin(Bin::Add, Expr::Call("FNA".into(), vec![var("Y")]), num(1)) }] });
            p.lines.push(Line { number: 10, stmts: vec![Stmt::Gosub(100)] });
            p.lines.push(Line { number: 20, stmts: vec![Stmt::End] });
            p.lines.push(Line { number: 100, stmts: vec![
                Stmt::Let { target: LValue::scalar("N"), expr: bin(Bin::Add, var("N"), num(1)), keyword: false },
                Stmt::If { cond: bin(Bin::Lt, var("N"), num(31)), then: Branch::Stmt(Box::new(Stmt::Gosub(100))), els: None },
            ] });
            p.lines.push(Line { number: 110, stmts: vec![Stmt::Print { items: vec![PrintItem::Expr(Expr::Call("FNB".into(), vec![var("N")]))], question_mark: false }] });
            p.lines.push(Line { number: 120, stmts: vec![Stmt::Return] });
        }
    }
    p
}
