//! G-hist: session histories = interleavings of line entries, immediate statements, commands,
//! runs driven for k turns, breaks, replies, NEW, randomize. Abstract ops are applied by an executor
//! that only issues calls legal in the observed state (the protocol is respected by construction).

use crate::drive::{Op, Session};
use crate::gen::{prog, text, toks};
use crate::util::Rng;
use abasic_core::InterpreterState;

#[derive(Clone, Debug)]
pub enum HistOp {
    /// enter a line when idle (skipped otherwise)
    Line(String),
    /// continue for up to k turns, answering input requests from the reply pool
    Drive(u32),
    /// break if running or awaiting input
    Break,
    /// when awaiting input: hand over a reply, then break before the next turn
    ReplyThenBreak(String),
    /// when awaiting input: hand over a reply and continue one turn
    Reply(String),
    Randomize(u64),
    /// bring to Idle (break / replace after NEW)
    Settle,
    /// the host call `stop_evaluating()` in whatever state the interpreter is
    Stop,
    /// when awaiting input: hand over a reply, then `stop_evaluating()` before the next turn
    ReplyThenStop(String),
}

pub struct HistGen {
    pub program_lines: Vec<String>,
    pub replies: Vec<String>,
}

const IMMEDIATE: &[&str] = &[
    "X = 5", "A$ = \"q\"", "DIM Z(3)", "M(1) = 2", "E(2) = 7", "FOR I = 1 TO 5", "FOR K = 3 TO 1 STEP -1", "NEXT I",
    "READ A$", "READ X", "RESTORE", "PRINT X; A$", "PRINT RND(1)", "PRINT FNA(1)", "RETURN", "CONT", "RUN", "LIST",
    "TRACE", "NOTRACE", "STATS", "INPUT Q", "INPUT Q$", "STOP", "END", "GOSUB 10", "GOTO 10", "DEF FNQ(X) = X",
    "IF 1 THEN PRINT 2 ELSE PRINT 3", "PRINT 1/0", "Y = \"s\"", "DIM Z(3,3)", "PRINT E(11)", "T$(3) = \"x\"", "LET W = W + 1",
    "FOR I = 1 TO 2 : PRINT I : NEXT I", "?", ":", "REM hi", "DATA 1,2",
    // a FOR whose control variable cannot hold a number fails; what it leaves behind must not trip a later NEXT / FOR
    "FOR A$ = 1 TO 3", "NEXT A$", "FOR N$ = 1 TO 2 : NEXT N$", "FOR A$ = 1 TO 3 : PRINT 1", "IF 1 THEN STOP", "IF 1 THEN IF 1 THEN STOP",
    // string values that spell the numerals the reply scripts use (what a string variable held must not colour how a reply is read)
    "A$ = \"7\" : B$ = \"5\"", "N$ = \"1\" : A$ = \"2\"", "B$ = \"0\" : N$ = \"3\"", "T$(1) = \"12\" : T$(2) = \"5\"", "A$ = \"-3\" : B$ = \"4.5\"",
    // arrays with the names and cell counts the generated programs use, but another shape
    "DIM M(1,2)", "DIM M(2,1) : M(2,1) = 4", "DIM P(19)", "DIM P(4,3)", "DIM Q(35)", "DIM Q(3,2,2)", "DIM E(0,10)", "DIM E(10,0) : E(3,0) = 1",
    "DIM G(120)", "DIM G(0,0,120)", "DIM R$(0,6)", "R$(6) = \"left\"", "DIM H(1)", "G(10,10) = 3", "PRINT U; V$; W(1)",
];

pub fn generate(rng: &mut Rng, len: usize, hostile: bool) -> (Vec<HistOp>, HistGen) {
    let opts = prog::GenOpts { inputs: true, stops: true, ..prog::GenOpts::default() };
    let g = prog::generate(rng, &opts);
    let lines = g.prog.text_lines();
    let line_numbers: Vec<u64> = g.prog.lines.iter().map(|l| l.number).collect();
    let mut ops = vec![];
    // enter the program, mostly in order, sometimes shuffled / with junk in between
    let mut order: Vec<usize> = (0..lines.len()).collect();
    if rng.chance(1, 3) {
        for i in (1..order.len()).rev() {
            let j = rng.usize(i + 1);
            order.swap(i, j);
        }
    }
    for i in order {
        ops.push(HistOp::Line(lines[i].clone()));
        if rng.chance(1, 15) {
            ops.push(HistOp::Line(rng.s(IMMEDIATE).to_string()));
        }
    }
    let pick_target = |rng: &mut Rng| -> u64 {
        if line_numbers.is_empty() || rng.chance(1, 8) {
            rng.below(500)
        } else {
            *rng.pick(&line_numbers)
        }
    };
    for _ in 0..len {
        match rng.below(30) {
            0..=4 => {
                ops.push(HistOp::Line("RUN".into()));
                ops.push(HistOp::Drive(rng.below(60) as u32));
            }
            5..=6 => ops.push(HistOp::Drive(1 + rng.below(400) as u32)),
            7..=9 => ops.push(HistOp::Break),
            10 => ops.push(HistOp::ReplyThenBreak(text::random_reply(rng))),
            11..=12 => ops.push(HistOp::Reply(rng.s(&["1", "7", "x", "", "2,3", "hello"]).to_string())),
            13..=18 => {
                let s = rng.s(IMMEDIATE).to_string();
                let s = if s.contains(" 10") && rng.coin() { s.replace(" 10", &format!(" {}", pick_target(rng))) } else { s };
                ops.push(HistOp::Line(s));
                if rng.coin() {
                    ops.push(HistOp::Drive(rng.below(20) as u32));
                }
            }
            19 => ops.push(HistOp::Line("CONT".into())),
            20 => {
                // edit: replace / delete / add
                let n = pick_target(rng);
                match rng.below(3) {
                    0 => ops.push(HistOp::Line(format!("{}", n))),
                    1 => ops.push(HistOp::Line(format!("{} PRINT \"edit{}\"", n, rng.below(100)))),
                    _ => ops.push(HistOp::Line(format!("{} {}", n + 1, rng.s(&["X = X + 1", "GOTO 10", "DATA 9, \"z\"", "INPUT V", "STOP", "FOR L = 1 TO 2", "NEXT L", "RETURN"])))),
                }
            }
            21 => ops.push(HistOp::Randomize(rng.next_u64() >> rng.below(40))),
            22 => ops.push(match rng.below(4) { 0 => HistOp::Stop, 1 => HistOp::ReplyThenStop(text::random_reply(rng)), _ => HistOp::Settle }),
            23 if hostile => ops.push(HistOp::Line(text::random_line(rng, 12))),
            24 if hostile => ops.push(HistOp::Line(toks::join(&toks::random_pieces(rng, 8)))),
            25 if hostile => {
                ops.push(HistOp::Line("NEW".into()));
                ops.push(HistOp::Settle);
                // re-enter part of the program
                for l in lines.iter().take(rng.usize(lines.len() + 1)) {
                    ops.push(HistOp::Line(l.clone()));
                }
            }
            26 if hostile => ops.push(HistOp::Line(format!("{} {}", text::boundary_numeral(rng), rng.s(&["PRINT 1", "", "GOTO 10", "X=1"])))),
            _ => {
                ops.push(HistOp::Line(format!("GOTO {}", pick_target(rng))));
                ops.push(HistOp::Drive(rng.below(30) as u32));
            }
        }
    }
    (ops, HistGen { program_lines: lines, replies: g.replies })
}

/// Apply one abstract op; returns the number of host calls made.
pub fn apply(sess: &mut Session, op: &HistOp, replies: &[String], reply_idx: &mut usize) -> u32 {
    if sess.poisoned {
        return 0;
    }
    let mut calls = 0;
    match op {
        HistOp::Line(l) => {
            if sess.state() == InterpreterState::Idle {
                sess.call(Op::Line(l.clone()));
                calls += 1;
            }
        }
        HistOp::Drive(k) => {
            for _ in 0..*k {
                if sess.poisoned {
                    break;
                }
                match sess.state() {
                    InterpreterState::Running => {
                        let ok = sess.call(Op::Cont).res.is_ok();
                        calls += 1;
                        if !ok {
                            break;
                        }
                    }
                    InterpreterState::AwaitingInput => {
                        let t = crate::exec::reply_at(replies, *reply_idx);
                        *reply_idx += 1;
                        sess.call(Op::Input(t));
                        calls += 1;
                    }
                    _ => break,
                }
            }
        }
        HistOp::Break => {
            if matches!(sess.state(), InterpreterState::Running | InterpreterState::AwaitingInput) {
                sess.call(Op::Break);
                calls += 1;
            }
        }
        HistOp::ReplyThenBreak(t) => {
            if sess.state() == InterpreterState::AwaitingInput {
                sess.call(Op::Input(t.clone()));
                sess.call(Op::Break);
                calls += 2;
            }
        }
        HistOp::Reply(t) => {
            if sess.state() == InterpreterState::AwaitingInput {
                sess.call(Op::Input(t.clone()));
                calls += 1;
                if sess.state() == InterpreterState::Running {
                    sess.call(Op::Cont);
                    calls += 1;
                }
            }
        }
        HistOp::Randomize(s) => {
            if sess.state() != InterpreterState::NewInterpreterRequested {
                sess.call(Op::Randomize(*s));
                calls += 1;
            }
        }
        HistOp::Settle => {
            sess.settle();
            calls += 1;
        }
        HistOp::Stop => {
            if sess.state() != InterpreterState::NewInterpreterRequested {
                sess.call(Op::Stop);
                calls += 1;
            }
        }
        HistOp::ReplyThenStop(t) => {
            if sess.state() == InterpreterState::AwaitingInput {
                sess.call(Op::Input(t.clone()));
                sess.call(Op::Stop);
                calls += 2;
            }
        }
    }
    if !sess.poisoned && sess.state() == InterpreterState::NewInterpreterRequested {
        sess.call(Op::Replace);
        calls += 1;
    }
    calls
}
pub const IMMEDIATE_COUNT: usize = 0;
