//! Workload generators (pure functions of seed + index).
pub mod hist;
pub mod prog;
pub mod stmt;
pub mod text;
pub mod toks;
