//! Workload generators (pure functions of seed + index).
