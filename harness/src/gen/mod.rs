//! Workload generators (pure functions of seed + index).
pub mod text;
pub mod toks;
