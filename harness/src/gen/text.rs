//! G-text: arbitrary UTF-8 lines / replies / files, boundary numerals.

use crate::util::Rng;

pub const BOUNDARY_NUMERALS: &[&str] = &[
    "0", "1", "7", "10", "11", "31", "32", "33", "99", "100", "101", "9999", "10000", "10001", "65535", "65536",
    "2147483647", "2147483648", "4294967295", "4294967296", "4294967297",
    "9007199254740992", "9007199254740993",
    "9223372036854775806", "9223372036854775807", "9223372036854775808", "9223372036854775809",
    "18446744073709551614", "18446744073709551615", "18446744073709551616", "18446744073709551617",
    "99999999999999999999999999",
    "1" /* placeholder replaced by long forms below */,
    ".", "..", "1.", ".1", ".1.", "1.5", "0.5", "00.50", "007", "-1", "-0", "1e5", "1E5",
];

pub fn boundary_numeral(rng: &mut Rng) -> String {
    match rng.below(12) {
        0 => format!("1{}", "0".repeat(*rng.pick(&[308usize, 309, 400, 20, 38, 39]))),
        1 => format!("{}", "9".repeat(1 + rng.usize(420))),
        2 => format!(".{}", "3".repeat(1 + rng.usize(400))),
        _ => rng.s(BOUNDARY_NUMERALS).to_string(),
    }
}

const CHARS: &[&str] = &[
    " ", " ", "\t", "\r", "\n", "\0", "\x0b", "\x0c", "\x7f", "\"", "\"", ":", ",", ";", "?", "(", ")", "+", "-", "*", "/", "^", "=",
    "<", ">", "$", "%", "&", "!", "#", "@", "[", "]", "{", "}", "|", "\\", "'", "`", "~", "_", ".",
    "A", "B", "X", "e", "E", "i", "n", "f", "a", "z", "0", "1", "9",
    "é", "ü", "ß", "λ", "Ж", "中", "💥", "😀", "e\u{301}", "\u{200b}", "\u{feff}", "\u{2028}", "\u{a0}",
    // characters of Unicode's numeric classes that are not ASCII digits
    "１", "０", "²", "½", "٣", "Ⅷ", "①", "৪",
    // characters whose upper / lower case form has another UTF-8 length
    "ŉ", "ı", "ſ", "ﬁ", "ǰ", "ΐ", "İ", "ß",
    // Unicode white space that is not a BASIC blank
    "\u{3000}", "\u{2003}", "\u{85}",
];

const WORDS: &[&str] = &[
    "PRINT", "print", "INPUT", "IF", "THEN", "ELSE", "GOTO", "GOSUB", "RETURN", "FOR", "TO", "STEP", "NEXT", "DIM", "LET",
    "READ", "DATA", "RESTORE", "DEF", "FNA", "REM", "END", "STOP", "AND", "OR", "NOT", "ABS", "INT", "RND",
    "RUN", "LIST", "NEW", "CONT", "TRACE", "NOTRACE", "INTERNALS", "STATS", "run", "list ", "cont",
    "A", "A$", "B(", "B$(", "X", "I", "SCORE", "inf", "nan", "NaN", "infinity",
];

/// An arbitrary line of at most ~max_units units.
pub fn random_line(rng: &mut Rng, max_units: usize) -> String {
    let n = rng.usize(max_units + 1);
    let mut s = String::new();
    for _ in 0..n {
        match rng.below(10) {
            0..=3 => s.push_str(rng.s(CHARS)),
            4..=6 => {
                s.push_str(rng.s(WORDS));
                if rng.coin() {
                    s.push(' ');
                }
            }
            7 => s.push_str(&boundary_numeral(rng)),
            8 => {
                s.push('"');
                for _ in 0..rng.usize(6) {
                    s.push_str(rng.s(CHARS));
                }
                if rng.chance(4, 5) {
                    s.push('"');
                }
            }
            _ => {
                s.push_str(&format!("{}", rng.below(200)));
                if rng.chance(1, 6) {
                    // a digit run continued by a non-ASCII numeric character
                    s.push_str(rng.s(&["²", "１", "½", "٣", "①"]));
                }
            }
        }
    }
    s
}

/// Arbitrary reply text for INPUT.
pub fn random_reply(rng: &mut Rng) -> String {
    match rng.below(12) {
        0 => String::new(),
        1 => " ".into(),
        2 => format!("{}", rng.range(-1000, 1000)),
        3 => format!("{}.{}", rng.below(100), rng.below(100)),
        4 => "hello".into(),
        5 => "\"quoted, text\"".into(),
        6 => format!("{},{}", rng.below(10), rng.below(10)),
        7 => "1:2".into(),
        8 => boundary_numeral(rng),
        9 => "\"unterminated".into(),
        _ => random_line(rng, 8),
    }
}
