//! G-stmt: single lines of straight-line statements with a tunable rate of typing / syntax mistakes
//! (used by C06 direction 2: no IF, GOTO, GOSUB, RETURN, NEXT, END, STOP, INPUT, DEF, user-function call).

use crate::util::Rng;

fn num_atom(rng: &mut Rng) -> String {
    match rng.below(10) {
        0..=3 => rng.s(&["0", "1", "2", "3.5", ".5", "10"]).to_string(),
        4..=6 => rng.s(&["A", "B", "X", "I"]).to_string(),
        7 => format!("M({})", rng.s(&["1", "2", "I", "0"])),
        8 => format!("ABS({})", rng.s(&["-1", "X", "2 - 3"])),
        _ => format!("INT({})", rng.s(&["1.5", "X / 2"])),
    }
}

fn str_atom(rng: &mut Rng) -> String {
    match rng.below(6) {
        0..=2 => rng.s(&["\"\"", "\"A\"", "\"HI\"", "\"é\""]).to_string(),
        3..=4 => rng.s(&["A$", "B$", "N$"]).to_string(),
        _ => format!("R$({})", rng.s(&["1", "2"])),
    }
}

/// expression of the requested kind; `mistake` makes one operand the wrong kind
pub fn expr(rng: &mut Rng, want_str: bool, depth: u32, mistakes: &mut u32) -> String {
    let wrong = *mistakes > 0 && rng.chance(1, 3);
    if wrong {
        *mistakes = mistakes.saturating_sub(1);
    }
    if want_str {
        if wrong {
            return num_atom(rng);
        }
        return str_atom(rng);
    }
    if depth == 0 {
        return if wrong { str_atom(rng) } else { num_atom(rng) };
    }
    match rng.below(16) {
        0..=3 => format!("{} {} {}", expr(rng, false, depth - 1, mistakes), rng.s(&["+", "-", "*", "/", "^"]), if wrong { str_atom(rng) } else { expr(rng, false, depth - 1, mistakes) }),
        4..=5 => {
            // comparison of two numbers or of two strings: a number
            let strs = rng.coin();
            let l = expr(rng, strs, depth - 1, mistakes);
            let r = if wrong { expr(rng, !strs, 0, &mut 0) } else { expr(rng, strs, depth - 1, mistakes) };
            format!("{} {} {}", l, rng.s(&["=", "<>", "<", "<=", ">", ">="]), r)
        }
        6 => {
            // chained comparison: (a = b) = c compares a number with c
            let strs = rng.coin();
            format!("{} = {} = {}", expr(rng, strs, 0, &mut 0), expr(rng, strs, 0, &mut 0), if wrong { str_atom(rng) } else { num_atom(rng) })
        }
        7..=8 => {
            // logical operators accept operands of either kind and yield a number
            let (ls, rs) = (rng.coin(), rng.coin());
            let l = expr(rng, ls, depth - 1, mistakes);
            let r = expr(rng, rs, depth - 1, mistakes);
            format!("{} {} {}", l, rng.s(&["AND", "OR"]), r)
        }
        9 => {
            let st = rng.coin();
            format!("NOT {}", expr(rng, st, 0, &mut 0))
        }
        10 => format!("-{}", if wrong { str_atom(rng) } else { num_atom(rng) }),
        11 => format!("+{}", if wrong { str_atom(rng) } else { num_atom(rng) }),
        12 => {
            if rng.chance(1, 3) {
                // an arithmetic operator between two operands of the same (string) kind
                format!("{} {} {}", str_atom(rng), rng.s(&["+", "+", "-", "*", "/", "^"]), str_atom(rng))
            } else {
                format!("({})", expr(rng, false, depth - 1, mistakes))
            }
        }
        13 => format!("ABS({})", if wrong { str_atom(rng) } else { expr(rng, false, depth - 1, mistakes) }),
        14 => format!("M({})", if wrong { str_atom(rng) } else { expr(rng, false, 0, &mut 0) }),
        _ => num_atom(rng),
    }
}

pub fn statement(rng: &mut Rng, mistakes: &mut u32) -> String {
    let syntax_break = *mistakes > 0 && rng.chance(1, 6);
    let s = match rng.below(14) {
        0..=2 => format!("{}{} = {}", rng.s(&["", "LET "]), rng.s(&["A", "X", "B"]), expr(rng, false, 2, mistakes)),
        3 => {
            let wrong = *mistakes > 0 && rng.chance(1, 2);
            if wrong {
                *mistakes = mistakes.saturating_sub(1);
            }
            format!("{} = {}", rng.s(&["A$", "N$"]), expr(rng, !wrong, 1, &mut 0))
        }
        4 => format!("M({}) = {}", expr(rng, false, 0, mistakes), expr(rng, false, 1, mistakes)),
        5 => format!("R$({}) = {}", rng.s(&["1", "2"]), expr(rng, true, 1, mistakes)),
        6..=8 => {
            let n = 1 + rng.usize(3);
            let mut s = String::from(rng.s(&["PRINT", "?"]));
            for k in 0..n {
                if k > 0 {
                    s.push_str(rng.s(&[";", ",", "; "]));
                }
                s.push(' ');
                let st = rng.chance(1, 3);
                s.push_str(&expr(rng, st, 2, mistakes));
            }
            if rng.chance(1, 5) {
                s.push(';');
            }
            s
        }
        9 => format!("DIM {}({})", rng.s(&["D", "E$", "F"]), expr(rng, false, 0, mistakes)),
        10 => format!("FOR {} = {} TO {}{}", rng.s(&["I", "J", "K$"]), expr(rng, false, 1, mistakes), expr(rng, false, 1, mistakes), if rng.coin() { format!(" STEP {}", expr(rng, false, 0, mistakes)) } else { String::new() }),
        11 => {
            if rng.coin() {
                "RESTORE".to_string()
            } else {
                format!("{} = {} + {}", rng.s(&["A$", "N$"]), str_atom(rng), str_atom(rng))
            }
        }
        12 => format!("READ {}", rng.s(&["A$", "A$, B$", "N$"])),
        _ => format!("X = {}", expr(rng, false, 3, mistakes)),
    };
    if syntax_break {
        *mistakes = mistakes.saturating_sub(1);
        match rng.below(7) {
            // an ELSE that belongs to no IF, and an ELSE after a THEN clause of more than one statement
            5 => format!("{} ELSE {}", s, statement(rng, &mut 0)),
            6 => format!("IF 1 THEN {} : {} ELSE {}", s, statement(rng, &mut 0), statement(rng, &mut 0)),
            0 => format!("{} +", s),
            1 => format!("{} )", s),
            2 => s.replacen('=', "", 1),
            3 => format!("{} {}", s, rng.s(&["THEN", "TO", "STEP", ",", "("])),
            _ => format!("= {}", s),
        }
    } else {
        s
    }
}

/// A line of 1-3 statements; about `mistake_pct` % of the lines contain at least one mistake.
pub fn line(rng: &mut Rng, mistake_pct: u64) -> String {
    let mut mistakes = if rng.below(100) < mistake_pct { 1 + rng.below(2) as u32 } else { 0 };
    let n = 1 + rng.usize(3);
    let mut parts = vec![];
    for _ in 0..n {
        parts.push(statement(rng, &mut mistakes));
    }
    if rng.chance(1, 10) {
        // an IF with a constant condition keeps the line single-path: the clause that is not taken is free of mistakes
        // (taken from a fixed list: generated statements are not guaranteed to be well-typed even without injected mistakes)
        let other = rng.s(&["A = 1", "PRINT \"x\"", "N$ = \"q\"", "X = X + 1", "PRINT A; B$", "M(1) = 2", "RESTORE"]).to_string();
        let k = rng.usize(parts.len());
        parts[k] = if rng.coin() { format!("IF 1 THEN {} ELSE {}", parts[k], other) } else { format!("IF 0 THEN {} ELSE {}", other, parts[k]) };
        // (what follows on the line belongs to the clause that ends the line, so it has to be the last statement)
        parts.truncate(k + 1);
    }
    if rng.chance(1, 8) {
        parts.push(rng.s(&["DATA 1, two", "REM note", "DATA \"q\""]).to_string());
    }
    if rng.chance(1, 8) {
        // a DATA statement ends at the first colon: what follows it on the line is executed like any statement
        parts.insert(0, rng.s(&["DATA 1,2", "DATA SUP, \"DOG\"", "DATA", "DATA \"a:b\""]).to_string());
    }
    parts.join(rng.s(&[" : ", ":", " :"]))
}
