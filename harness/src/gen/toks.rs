//! G-tok: lines assembled from the token alphabet, as a list of pieces whose
//! "protected" status (literal text whose blanks/case are significant) is known by construction.

use crate::util::Rng;

#[derive(Clone, Copy, Debug, PartialEq)]
pub enum Prot {
    /// Blanks may be inserted anywhere, letters may change case.
    Plain,
    /// Literal text: nothing strictly inside may change; insertion at either boundary is fine
    /// (string literals incl. their quotes, the interior of a DATA item).
    Literal,
    /// REM text: protected including its left boundary and the end of line.
    RemText,
}

#[derive(Clone, Debug)]
pub struct Piece {
    pub text: String,
    pub prot: Prot,
}

pub fn plain(s: &str) -> Piece {
    Piece { text: s.to_string(), prot: Prot::Plain }
}
pub fn literal(s: &str) -> Piece {
    Piece { text: s.to_string(), prot: Prot::Literal }
}
pub fn remtext(s: &str) -> Piece {
    Piece { text: s.to_string(), prot: Prot::RemText }
}

pub fn join(pieces: &[Piece]) -> String {
    pieces.iter().map(|p| p.text.as_str()).collect()
}

/// For every byte position 0..=len: may a blank be inserted *before* that position?
/// For every byte: may it be deleted (if blank) / case-flipped (if letter)?
pub struct Mask {
    pub insert_ok: Vec<bool>,
    pub edit_ok: Vec<bool>,
}

pub fn mask(pieces: &[Piece]) -> Mask {
    let total: usize = pieces.iter().map(|p| p.text.len()).sum();
    let mut insert_ok = vec![true; total + 1];
    let mut edit_ok = vec![true; total];
    let mut pos = 0;
    for p in pieces {
        let len = p.text.len();
        match p.prot {
            Prot::Plain => {
                // multi-byte characters inside plain text: never split them
                for (i, _) in p.text.char_indices() {
                    let _ = i;
                }
                for i in 1..len {
                    if !p.text.is_char_boundary(i) {
                        insert_ok[pos + i] = false;
                    }
                }
            }
            Prot::Literal => {
                for i in 1..len {
                    insert_ok[pos + i] = false;
                }
                for i in 0..len {
                    edit_ok[pos + i] = false;
                }
            }
            Prot::RemText => {
                for i in 0..=len {
                    insert_ok[pos + i] = false;
                }
                for i in 0..len {
                    edit_ok[pos + i] = false;
                }
                // everything after REM text is comment as well
                for i in pos + len..=total {
                    insert_ok[i] = false;
                }
                for i in pos + len..total {
                    edit_ok[i] = false;
                }
            }
        }
        pos += len;
    }
    Mask { insert_ok, edit_ok }
}

pub const KEYWORDS: &[&str] = &[
    "DIM", "LET", "PRINT", "INPUT", "GOTO", "GOSUB", "RETURN", "IF", "THEN", "ELSE", "AND", "OR", "NOT", "END",
    "STOP", "FOR", "TO", "NEXT", "STEP", "READ", "RESTORE", "DEF",
];

pub const OPERATORS: &[&str] = &[":", ";", ",", "?", "(", ")", "+", "-", "*", "/", "^", "=", "<>", "<", "<=", ">", ">="];

pub const SYMBOLS: &[&str] = &["A", "B$", "SCORE", "TOTAL", "FORK", "X1", "FNA", "I", "NOTE$", "Z9$"];

pub const NUMERALS: &[&str] = &["1", ".5", "007", "1.", "12.5", "0", "100"];

pub const STRINGS: &[&str] = &["\"s p\"", "\"é\"", "\"\"", "\"IF x THEN\"", "\"a:b,c\"", "\"score\"", "\"total\"", "\"x1\"", "\"Fna\"", "\"note$\""];

/// A DATA statement as pieces: keyword, then items with plain separators.
/// `items`: (text, quoted?)
pub fn data_pieces(items: &[(&str, bool)], lead: &str, sep_before: &str, sep_after: &str, tail: &str) -> Vec<Piece> {
    let mut v = vec![plain("DATA"), plain(lead)];
    for (i, (text, quoted)) in items.iter().enumerate() {
        if i > 0 {
            v.push(plain(sep_before));
            v.push(plain(","));
            v.push(plain(sep_after));
        }
        if *quoted {
            v.push(literal(&format!("\"{}\"", text)));
        } else if !text.is_empty() {
            v.push(literal(text));
        }
    }
    v.push(plain(tail));
    v
}

/// The enumeration alphabet for C12/C13: each atom is a short piece list.
/// `with_hostile` adds atoms that make lines fail to tokenize (C13 wants them, C12 tolerates them).
pub fn atoms(with_hostile: bool) -> Vec<Vec<Piece>> {
    let mut a: Vec<Vec<Piece>> = vec![];
    for k in KEYWORDS {
        a.push(vec![plain(k)]);
    }
    for o in OPERATORS {
        a.push(vec![plain(o)]);
    }
    for s in ["A", "B$", "SCORE", "TOTAL", "X1"] {
        a.push(vec![plain(s)]);
    }
    for n in ["1", ".5", "007", "1."] {
        a.push(vec![plain(n)]);
    }
    // `"total"` / `"a"`: literals that equal an identifier of the alphabet except for letter case
    for s in ["\"s p\"", "\"é\"", "\"\"", "\"total\"", "\"a\""] {
        a.push(vec![literal(s)]);
    }
    a.push(vec![plain(" ")]);
    a.push(vec![plain("\t")]);
    // lower-case spellings
    a.push(vec![plain("print")]);
    a.push(vec![plain("go to")]);
    a.push(vec![plain("b$")]);
    // REM and DATA forms (REM swallows the rest of the line, see `sequence_to_pieces`)
    a.push(vec![plain("REM")]);
    a.push(data_pieces(&[("a b", false), ("Q r", true), ("1", false)], " ", "", " ", ""));
    a.push(data_pieces(&[("x", true)], "", "", "", ""));
    a.push(data_pieces(&[("7", false), ("", false), ("é", false)], " ", " ", "", ""));
    if with_hostile {
        a.push(vec![plain("é")]);
        a.push(vec![plain("\"")]);
        a.push(vec![plain(".")]);
        a.push(vec![plain("%")]);
        a.push(vec![plain("\r")]);
    }
    a
}

/// Concatenate atoms; anything following a REM atom becomes REM text; anything following a DATA
/// atom up to the next ':' is DATA text (treated as literal, so it is left alone by perturbations).
pub fn sequence_to_pieces(seq: &[&Vec<Piece>]) -> Vec<Piece> {
    let mut out: Vec<Piece> = vec![];
    // frozen: everything from here on is kept byte-for-byte (REM text, text glued to DATA items,
    // text after an unpaired quote). Conservative: fewer perturbations, never unsound.
    let mut frozen = false;
    let mut in_data = false;
    for atom in seq {
        if frozen {
            for p in atom.iter() {
                out.push(remtext(&p.text));
            }
            continue;
        }
        if in_data {
            if atom.len() == 1 && atom[0].text == ":" {
                in_data = false;
                out.push(plain(":"));
            } else {
                // foreign text inside a DATA statement becomes part of some item
                for p in atom.iter() {
                    out.push(remtext(&p.text));
                }
                frozen = true;
            }
            continue;
        }
        out.extend(atom.iter().cloned());
        let first = &atom[0];
        if first.prot == Prot::Plain {
            let up = first.text.to_ascii_uppercase();
            if up == "REM" {
                frozen = true;
                out.push(remtext(""));
            } else if up == "DATA" {
                in_data = true;
            } else if first.text == "\"" {
                frozen = true;
                out.push(remtext(""));
            }
        }
    }
    out
}

/// Random longer line built from the alphabet (used by several properties).
pub fn random_pieces(rng: &mut Rng, max_atoms: usize) -> Vec<Piece> {
    let mut out: Vec<Piece> = vec![];
    let n = 1 + rng.usize(max_atoms);
    let mut i = 0;
    while i < n {
        i += 1;
        let k = rng.below(100);
        if k < 25 {
            out.push(plain(rng.s(KEYWORDS)));
        } else if k < 45 {
            out.push(plain(rng.s(OPERATORS)));
        } else if k < 60 {
            let s = rng.s(SYMBOLS);
            if rng.chance(1, 4) {
                out.push(plain(&s.to_ascii_lowercase()));
            } else {
                out.push(plain(s));
            }
        } else if k < 72 {
            if rng.chance(1, 4) {
                // a numeral with more significant digits than an f64 holds (and a fraction): its value must not
                // depend on how the scanner is fed (glued, spaced out, after which token)
                let int_digits = rng.usize(4);
                let frac_digits = 14 + rng.usize(8);
                let mut t = String::new();
                for _ in 0..int_digits {
                    t.push((b'0' + rng.below(10) as u8) as char);
                }
                t.push('.');
                for _ in 0..frac_digits {
                    t.push((b'0' + rng.below(10) as u8) as char);
                }
                out.push(plain(&t));
            } else {
                out.push(plain(rng.s(NUMERALS)));
            }
        } else if k < 80 {
            out.push(literal(rng.s(STRINGS)));
        } else if k < 90 {
            out.push(plain(rng.s(&[" ", "  ", "\t", " \t "])));
        } else if k < 94 {
            // DATA up to a colon or end of line
            let items_pool: &[(&str, bool)] = &[
                ("a b", false), ("Q r", true), ("1", false), ("-2.5", false), ("", true), ("é ü", false),
                ("IF", false), ("x:y", true), ("p,q", true), ("  pad  ", true),
            ];
            let cnt = 1 + rng.usize(4);
            let mut items = vec![];
            for _ in 0..cnt {
                items.push(*rng.pick(items_pool));
            }
            let lead = rng.s(&["", " ", "  "]);
            let sb = rng.s(&["", " "]);
            let sa = rng.s(&["", " ", "\t"]);
            out.extend(data_pieces(&items, lead, sb, sa, ""));
            if rng.coin() && i < n {
                out.push(plain(":"));
            } else {
                break;
            }
        } else if k < 97 {
            out.push(plain("REM"));
            out.push(remtext(rng.s(&["", " hello", "  two  spaces ", ": PRINT 1", "é \"quote", "x"])));
            break;
        } else {
            out.push(plain(":"));
        }
    }
    out
}

/// Fully crunched spelling: every unprotected blank removed.
pub fn crunched(pieces: &[Piece]) -> String {
    let text = join(pieces);
    let m = mask(pieces);
    let bytes = text.as_bytes();
    let mut out: Vec<u8> = vec![];
    for (i, b) in bytes.iter().enumerate() {
        if m.edit_ok[i] && is_blank(*b) {
            continue;
        }
        out.push(*b);
    }
    String::from_utf8(out).unwrap_or(text)
}

/// Fully letter-spaced spelling: a blank at every allowed insertion position.
pub fn spaced(pieces: &[Piece]) -> String {
    let text = join(pieces);
    let m = mask(pieces);
    let bytes = text.as_bytes();
    let mut out: Vec<u8> = vec![];
    for i in 0..=bytes.len() {
        if m.insert_ok[i] {
            out.push(b' ');
        }
        if i < bytes.len() {
            out.push(bytes[i]);
        }
    }
    String::from_utf8(out).unwrap_or(text)
}

pub fn is_blank(b: u8) -> bool {
    b == b' ' || b == b'\t' || b == b'\r' || b == 0x0c
}


/// Mixed-radix enumeration of all atom sequences of length 1..=max_len.
pub fn enumeration_size(n_atoms: u64, max_len: u32) -> u64 {
    (1..=max_len).map(|k| n_atoms.pow(k)).sum()
}

pub fn enumeration_sequence(mut index: u64, n_atoms: u64, max_len: u32) -> Vec<usize> {
    let mut len = 1;
    loop {
        let block = n_atoms.pow(len);
        if index < block || len == max_len {
            break;
        }
        index -= block;
        len += 1;
    }
    let mut v = vec![0usize; len as usize];
    for slot in v.iter_mut().rev() {
        *slot = (index % n_atoms) as usize;
        index /= n_atoms;
    }
    v
}
