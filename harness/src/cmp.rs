//! Turn-by-turn comparison of a real run with a model run.

use crate::drive::{Out, Res};
use crate::exec::{ModelRun, RealRun};
use crate::model::prog::{Ev, Status};
use abasic_core::InterpreterState;

#[derive(Clone, Copy, Debug)]
pub struct CmpOpts {
    pub tracing: bool,
    pub warnings: bool,
}

/// canonical per-turn observable shared by both sides
#[derive(Clone, Debug)]
pub enum Obs {
    Trace(u64),
    Print(String),
    /// kind ("variable"/"array"/"?"), name (if extractable), line
    Warning(String, String, Option<u64>),
    Break(Option<u64>),
    Reenter,
    ExtraIgnored,
}

/// Equality of observations. Warning *wording* is not part of any property: a warning's kind and name are
/// extracted from the message text when possible ("?" / "" otherwise) and then only compared when both sides
/// have them; the line is always compared.
impl PartialEq for Obs {
    fn eq(&self, other: &Obs) -> bool {
        match (self, other) {
            (Obs::Trace(a), Obs::Trace(b)) => a == b,
            (Obs::Print(a), Obs::Print(b)) => a == b,
            (Obs::Break(a), Obs::Break(b)) => a == b,
            (Obs::Reenter, Obs::Reenter) | (Obs::ExtraIgnored, Obs::ExtraIgnored) => true,
            (Obs::Warning(k1, n1, l1), Obs::Warning(k2, n2, l2)) => {
                l1 == l2 && (k1 == k2 || k1 == "?" || k2 == "?") && (n1 == n2 || n1.is_empty() || n2.is_empty())
            }
            _ => false,
        }
    }
}

pub fn parse_warning(msg: &str) -> (String, String) {
    let kind = if msg.contains("variable") {
        "variable"
    } else if msg.contains("array") {
        "array"
    } else {
        "?"
    };
    let name = msg.split('\'').nth(1).unwrap_or("").to_string();
    (kind.to_string(), name)
}

pub fn real_obs(outs: &[Out]) -> Vec<Obs> {
    outs.iter()
        .map(|o| match o {
            Out::Trace(l) => Obs::Trace(*l),
            Out::Print(s) => Obs::Print(s.clone()),
            Out::Warning(m, l) => {
                let (k, n) = parse_warning(m);
                Obs::Warning(k, n, *l)
            }
            Out::Break(l) => Obs::Break(*l),
            Out::Reenter => Obs::Reenter,
            Out::ExtraIgnored => Obs::ExtraIgnored,
        })
        .collect()
}

pub fn model_obs(events: &[Ev], o: CmpOpts) -> Vec<Obs> {
    events
        .iter()
        .filter_map(|e| match e {
            Ev::Trace(l) => {
                if o.tracing {
                    Some(Obs::Trace(*l))
                } else {
                    None
                }
            }
            Ev::Print(s) => Some(Obs::Print(s.clone())),
            Ev::Warning(k, n, l) => {
                if o.warnings {
                    Some(Obs::Warning(k.to_string(), n.clone(), *l))
                } else {
                    None
                }
            }
            Ev::Break(l) => Some(Obs::Break(*l)),
            Ev::Reenter => Some(Obs::Reenter),
            Ev::ExtraIgnored => Some(Obs::ExtraIgnored),
        })
        .collect()
}

fn status_matches(state: InterpreterState, res: &Res, status: &Status) -> bool {
    match (status, res) {
        (Status::Failed(f), Res::Err(e)) => e.kind == f.kind && e.line == f.line && state == InterpreterState::Idle,
        (Status::Failed(_), _) => false,
        (_, Res::Err(_)) | (_, Res::Panic(_)) => false,
        (Status::Running, Res::Ok) => state == InterpreterState::Running,
        (Status::AwaitingInput, Res::Ok) => state == InterpreterState::AwaitingInput,
        (Status::Ended, Res::Ok) | (Status::Stopped(_), Res::Ok) => state == InterpreterState::Idle,
    }
}

/// Ok(number of turns compared) or Err((turn index, explanation))
pub fn compare_turns(real: &RealRun, model: &ModelRun, o: CmpOpts) -> Result<usize, (usize, String)> {
    let n = real.turns.len().min(model.turns.len());
    for i in 0..n {
        let r = &real.turns[i];
        let m = &model.turns[i];
        let ro = real_obs(&r.outs);
        let mo = model_obs(&m.events, o);
        if ro != mo {
            return Err((i, format!("turn {}: real outputs {:?}, model {:?}", i + 1, ro, mo)));
        }
        if !status_matches(r.state, &r.res, &m.status) {
            return Err((
                i,
                format!("turn {}: real state {:?} result {}, model status {:?}", i + 1, r.state, r.res.to_json(), m.status),
            ));
        }
        if let (Some(rd), Some(md)) = (&r.digest, &m.digest) {
            if rd != md {
                let diff: Vec<String> = rd.iter().filter(|x| !md.contains(x)).map(|x| format!("real: {}", x))
                    .chain(md.iter().filter(|x| !rd.contains(x)).map(|x| format!("model: {}", x))).take(6).collect();
                return Err((i, format!("turn {}: variables/arrays differ at a quiescent point: {:?}", i + 1, diff)));
            }
        }
        if r.was_reply != m.was_reply {
            return Err((i, format!("turn {}: reply consumed on one side only", i + 1)));
        }
    }
    if real.turns.len() != model.turns.len() && !(real.capped || model.capped) {
        return Err((
            n,
            format!("real run took {} turns, model {} turns", real.turns.len(), model.turns.len()),
        ));
    }
    Ok(n)
}


/// Tolerant form of the comparison, used only after `compare_turns` found a difference: it decides whether
/// the difference is merely *where the turn boundaries fall* (which the properties do not fix) or a real one.
///
/// Flattened: the run is cut into segments at the turns that consume a reply; per segment the non-trace
/// records must be equal in order; the state after each segment, the variables/arrays at those points and
/// the final outcome must be equal; with tracing on, the collapsed trace must equal the lines the model
/// passes through.
pub fn compare_flat(real: &RealRun, model: &ModelRun, o: CmpOpts) -> Result<(), String> {
    fn segments_real(run: &RealRun) -> Vec<(Vec<Obs>, String, Option<Vec<String>>)> {
        let mut segs = vec![];
        let mut cur: Vec<Obs> = vec![];
        let mut last: (String, Option<Vec<String>>) = ("start".into(), None);
        for t in &run.turns {
            if t.was_reply {
                segs.push((std::mem::take(&mut cur), last.0.clone(), last.1.clone()));
            }
            cur.extend(real_obs(&t.outs).into_iter().filter(|x| !matches!(x, Obs::Trace(_))));
            let st = match (&t.res, t.state) {
                (Res::Err(e), _) => format!("error {} {:?}", e.kind, e.line),
                (Res::Panic(_), _) => "panic".to_string(),
                (_, InterpreterState::Running) => "running".to_string(),
                (_, InterpreterState::AwaitingInput) => "awaiting".to_string(),
                (_, _) => "idle".to_string(),
            };
            last = (st, t.digest.clone());
        }
        segs.push((cur, last.0, last.1));
        segs
    }
    fn segments_model(run: &ModelRun, o: CmpOpts) -> Vec<(Vec<Obs>, String, Option<Vec<String>>)> {
        let mut segs = vec![];
        let mut cur: Vec<Obs> = vec![];
        let mut last: (String, Option<Vec<String>>) = ("start".into(), None);
        for t in &run.turns {
            if t.was_reply {
                segs.push((std::mem::take(&mut cur), last.0.clone(), last.1.clone()));
            }
            cur.extend(model_obs(&t.events, CmpOpts { tracing: false, warnings: o.warnings }));
            let st = match &t.status {
                Status::Failed(f) => format!("error {} {:?}", f.kind, f.line),
                Status::Running => "running".to_string(),
                Status::AwaitingInput => "awaiting".to_string(),
                _ => "idle".to_string(),
            };
            last = (st, t.digest.clone());
        }
        segs.push((cur, last.0, last.1));
        segs
    }
    let capped = real.capped || model.capped;
    let rs = segments_real(real);
    let ms = segments_model(model, o);
    if rs.len() != ms.len() && !capped {
        return Err(format!("the real run consumed {} replies, the model {}", rs.len() - 1, ms.len() - 1));
    }
    let n = rs.len().min(ms.len());
    for i in 0..n {
        let last = i + 1 == n;
        if capped && last {
            // a capped run is cut at different places: compare as prefixes
            let k = rs[i].0.len().min(ms[i].0.len());
            if rs[i].0[..k] != ms[i].0[..k] {
                return Err(format!("segment {}: outputs differ (capped run): real {:?} model {:?}", i + 1, rs[i].0, ms[i].0));
            }
            continue;
        }
        if rs[i].0 != ms[i].0 {
            return Err(format!("segment {} (between replies): real records {:?}, model {:?}", i + 1, rs[i].0, ms[i].0));
        }
        if rs[i].1 != ms[i].1 {
            return Err(format!("after segment {}: real is `{}`, model `{}`", i + 1, rs[i].1, ms[i].1));
        }
        if let (Some(a), Some(b)) = (&rs[i].2, &ms[i].2) {
            if a != b {
                return Err(format!("after segment {}: variables/arrays differ", i + 1));
            }
        }
    }
    if o.tracing && !capped {
        let mut collapsed: Vec<u64> = vec![];
        for t in &real.turns {
            for x in &t.outs {
                if let Out::Trace(l) = x {
                    if collapsed.last() != Some(l) {
                        collapsed.push(*l);
                    }
                }
            }
        }
        if collapsed != model.lines_visited && collapsed != model.lines_visited_without_separator_only_visits {
            return Err(format!("collapsed trace {:?} differs from the lines the model passes through {:?}", collapsed, model.lines_visited));
        }
    }
    Ok(())
}

/// C09's tolerant oracle (tracing must be on): every real call must consist of the records of a contiguous
/// run of model units with AT MOST ONE statement unit (an IF with the statement chain it selects is one
/// unit); `:` separators may be their own call, be merged into a neighbouring call, or leave no trace.
pub fn align_calls(real: &RealRun, model: &ModelRun) -> Result<(), String> {
    let o = CmpOpts { tracing: true, warnings: false };
    let units: Vec<(Vec<Obs>, bool)> = model.turns.iter().map(|t| (model_obs(&t.events, o), t.separator)).collect();
    let capped = real.capped || model.capped;
    // set of model positions the real run may be at before each call (a separator's trace record is
    // indistinguishable from the trace of a record-less statement on the same line, hence a set)
    let mut at: std::collections::BTreeSet<usize> = std::collections::BTreeSet::new();
    at.insert(0);
    for (ci, call) in real.turns.iter().enumerate() {
        let obs = real_obs(&call.outs);
        let mut next: std::collections::BTreeSet<usize> = std::collections::BTreeSet::new();
        let mut overflow = false;
        let mut two_statements = false;
        // explore (unit index, position in obs, statements consumed)
        let mut stack: Vec<(usize, usize, u8)> = at.iter().map(|i| (*i, 0usize, 0u8)).collect();
        let mut seen: std::collections::BTreeSet<(usize, usize, u8)> = Default::default();
        while let Some((i, pos, st)) = stack.pop() {
            if !seen.insert((i, pos, st)) {
                continue;
            }
            if pos == obs.len() {
                next.insert(i);
            }
            let Some((ev, sep)) = units.get(i) else {
                if pos < obs.len() {
                    overflow = true;
                }
                continue;
            };
            let matches = obs.len() - pos >= ev.len() && obs[pos..pos + ev.len()] == ev[..];
            if *sep {
                stack.push((i + 1, pos, st)); // the separator left no record
                if matches && pos < obs.len() {
                    stack.push((i + 1, pos + ev.len(), st));
                }
            } else if matches && pos < obs.len() {
                if st == 0 {
                    stack.push((i + 1, pos + ev.len(), 1));
                } else {
                    two_statements = true;
                }
            }
        }
        if next.is_empty() {
            if capped && overflow {
                return Ok(());
            }
            return Err(if two_statements {
                format!("call {} executed more than one statement: records {:?}", ci + 1, obs)
            } else {
                format!("call {}: records {:?} cannot be matched with at most one statement of the model run", ci + 1, obs)
            });
        }
        at = next;
    }
    if !capped {
        let done = at.iter().any(|i| units[*i..].iter().all(|u| u.1));
        if !done {
            return Err(format!("the real run ended before the model's {} statement units were executed", units.len()));
        }
        let (rk, mk) = (real.final_res().outcome(), model.outcome());
        if rk != mk {
            return Err(format!("final outcome {:?} vs model {:?}", rk, mk));
        }
    }
    Ok(())
}
