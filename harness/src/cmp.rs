//! Turn-by-turn comparison of a real run with a model run.

use crate::drive::{Out, Res};
use crate::exec::{ModelRun, RealRun};
use crate::model::prog::{Ev, Status};
use abasic_core::InterpreterState;

#[derive(Clone, Copy, Debug)]
pub struct CmpOpts {
    pub tracing: bool,
    pub warnings: bool,
}

/// canonical per-turn observable shared by both sides
#[derive(Clone, Debug, PartialEq)]
pub enum Obs {
    Trace(u64),
    Print(String),
    /// kind ("variable"/"array"/"?"), name (if extractable), line
    Warning(String, String, Option<u64>),
    Break(Option<u64>),
    Reenter,
    ExtraIgnored,
}

pub fn parse_warning(msg: &str) -> (String, String) {
    let kind = if msg.contains("variable") {
        "variable"
    } else if msg.contains("array") {
        "array"
    } else {
        "?"
    };
    let name = msg.split('\'').nth(1).unwrap_or("").to_string();
    (kind.to_string(), name)
}

pub fn real_obs(outs: &[Out]) -> Vec<Obs> {
    outs.iter()
        .map(|o| match o {
            Out::Trace(l) => Obs::Trace(*l),
            Out::Print(s) => Obs::Print(s.clone()),
            Out::Warning(m, l) => {
                let (k, n) = parse_warning(m);
                Obs::Warning(k, n, *l)
            }
            Out::Break(l) => Obs::Break(*l),
            Out::Reenter => Obs::Reenter,
            Out::ExtraIgnored => Obs::ExtraIgnored,
        })
        .collect()
}

pub fn model_obs(events: &[Ev], o: CmpOpts) -> Vec<Obs> {
    events
        .iter()
        .filter_map(|e| match e {
            Ev::Trace(l) => {
                if o.tracing {
                    Some(Obs::Trace(*l))
                } else {
                    None
                }
            }
            Ev::Print(s) => Some(Obs::Print(s.clone())),
            Ev::Warning(k, n, l) => {
                if o.warnings {
                    Some(Obs::Warning(k.to_string(), n.clone(), *l))
                } else {
                    None
                }
            }
            Ev::Break(l) => Some(Obs::Break(*l)),
            Ev::Reenter => Some(Obs::Reenter),
            Ev::ExtraIgnored => Some(Obs::ExtraIgnored),
        })
        .collect()
}

fn status_matches(state: InterpreterState, res: &Res, status: &Status) -> bool {
    match (status, res) {
        (Status::Failed(f), Res::Err(e)) => e.kind == f.kind && e.line == f.line && state == InterpreterState::Idle,
        (Status::Failed(_), _) => false,
        (_, Res::Err(_)) | (_, Res::Panic(_)) => false,
        (Status::Running, Res::Ok) => state == InterpreterState::Running,
        (Status::AwaitingInput, Res::Ok) => state == InterpreterState::AwaitingInput,
        (Status::Ended, Res::Ok) | (Status::Stopped(_), Res::Ok) => state == InterpreterState::Idle,
    }
}

/// Ok(number of turns compared) or Err((turn index, explanation))
pub fn compare_turns(real: &RealRun, model: &ModelRun, o: CmpOpts) -> Result<usize, (usize, String)> {
    let n = real.turns.len().min(model.turns.len());
    for i in 0..n {
        let r = &real.turns[i];
        let m = &model.turns[i];
        let ro = real_obs(&r.outs);
        let mo = model_obs(&m.events, o);
        if ro != mo {
            return Err((i, format!("turn {}: real outputs {:?}, model {:?}", i + 1, ro, mo)));
        }
        if !status_matches(r.state, &r.res, &m.status) {
            return Err((
                i,
                format!("turn {}: real state {:?} result {}, model status {:?}", i + 1, r.state, r.res.to_json(), m.status),
            ));
        }
        if let (Some(rd), Some(md)) = (&r.digest, &m.digest) {
            if rd != md {
                let diff: Vec<String> = rd.iter().filter(|x| !md.contains(x)).map(|x| format!("real: {}", x))
                    .chain(md.iter().filter(|x| !rd.contains(x)).map(|x| format!("model: {}", x))).take(6).collect();
                return Err((i, format!("turn {}: variables/arrays differ at a quiescent point: {:?}", i + 1, diff)));
            }
        }
        if r.was_reply != m.was_reply {
            return Err((i, format!("turn {}: reply consumed on one side only", i + 1)));
        }
    }
    if real.turns.len() != model.turns.len() && !(real.capped || model.capped) {
        return Err((
            n,
            format!("real run took {} turns, model {} turns", real.turns.len(), model.turns.len()),
        ));
    }
    Ok(n)
}
