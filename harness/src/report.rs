//! What a worker observed; merged by the parent into the evidence file.

use serde::{Deserialize, Serialize};
use serde_json::Value;
use std::collections::{BTreeMap, BTreeSet};

#[derive(Clone, Debug, Serialize, Deserialize)]
pub struct Violation {
    /// Property that owns the violated invariant (may differ from the check that drove the session).
    pub property: String,
    /// Short stable key: one VIOLATION line per distinct signature.
    pub signature: String,
    pub workload: String,
    pub profile: String,
    pub seed: u64,
    pub index: u64,
    pub explanation: String,
    pub case: Value,
}

#[derive(Clone, Debug, Default, Serialize, Deserialize)]
pub struct KnownHit {
    pub count: u64,
    pub example: Value,
}

#[derive(Clone, Debug, Default, Serialize, Deserialize)]
pub struct Report {
    pub evaluations: u64,
    pub counters: BTreeMap<String, u64>,
    pub maxes: BTreeMap<String, u64>,
    pub sets: BTreeMap<String, BTreeSet<String>>,
    pub nontrivial_hashes: Vec<u64>,
    pub samples: Vec<Value>,
    pub violations: Vec<Violation>,
    pub known: BTreeMap<String, KnownHit>,
    pub inconclusive: Vec<String>,
    pub notes: Vec<String>,
}

pub const MAX_SAMPLES: usize = 6;
pub const MAX_HASHES_PER_WORKER: usize = 1_500_000;
pub const MAX_VIOLATIONS_PER_WORKER: usize = 40;

impl Report {
    pub fn count(&mut self, key: &str) {
        self.add(key, 1);
    }
    pub fn add(&mut self, key: &str, n: u64) {
        if let Some(v) = self.counters.get_mut(key) {
            *v += n;
        } else {
            self.counters.insert(key.to_string(), n);
        }
    }
    pub fn max(&mut self, key: &str, v: u64) {
        let e = self.maxes.entry(key.to_string()).or_insert(0);
        if v > *e {
            *e = v;
        }
    }
    pub fn set(&mut self, key: &str, v: &str) {
        let s = self.sets.entry(key.to_string()).or_default();
        if s.len() < 400 && !s.contains(v) {
            s.insert(v.to_string());
        }
    }
    /// Record the hash of a distinct-candidate non-trivial case. Capped per worker so that huge
    /// enumerations stay cheap: beyond the cap cases are only counted in `nontrivial_unhashed`,
    /// which makes distinct_nontrivial a measured lower bound.
    pub fn nontrivial(&mut self, hash: u64) {
        if self.nontrivial_hashes.len() < MAX_HASHES_PER_WORKER {
            self.nontrivial_hashes.push(hash);
        } else {
            self.add("nontrivial_unhashed", 1);
        }
    }
    pub fn want_sample(&self) -> bool {
        self.samples.len() < MAX_SAMPLES
    }
    pub fn sample(&mut self, v: Value) {
        if self.samples.len() < MAX_SAMPLES {
            self.samples.push(v);
        }
    }
    pub fn get(&self, key: &str) -> u64 {
        self.counters.get(key).copied().unwrap_or(0)
    }
    pub fn get_max(&self, key: &str) -> u64 {
        self.maxes.get(key).copied().unwrap_or(0)
    }
    pub fn violation(&mut self, v: Violation) {
        // keep the first of each signature, bounded
        if self.violations.iter().any(|x| x.signature == v.signature && x.property == v.property) {
            self.add(&format!("violations_suppressed_dup.{}", v.property), 1);
            return;
        }
        if self.violations.len() < MAX_VIOLATIONS_PER_WORKER {
            self.violations.push(v);
        }
    }
    pub fn known(&mut self, id: &str, example: impl FnOnce() -> Value) {
        let e = self.known.entry(id.to_string()).or_default();
        if e.count == 0 {
            e.example = example();
        }
        e.count += 1;
    }
    pub fn merge(&mut self, other: Report) {
        self.evaluations += other.evaluations;
        for (k, v) in other.counters {
            *self.counters.entry(k).or_insert(0) += v;
        }
        for (k, v) in other.maxes {
            let e = self.maxes.entry(k).or_insert(0);
            if v > *e {
                *e = v;
            }
        }
        for (k, v) in other.sets {
            self.sets.entry(k).or_default().extend(v);
        }
        self.nontrivial_hashes.extend(other.nontrivial_hashes);
        for s in other.samples {
            if self.samples.len() < MAX_SAMPLES {
                self.samples.push(s);
            }
        }
        for v in other.violations {
            if !self
                .violations
                .iter()
                .any(|x| x.signature == v.signature && x.property == v.property)
            {
                self.violations.push(v);
            }
        }
        for (k, v) in other.known {
            let e = self.known.entry(k).or_default();
            if e.count == 0 {
                e.example = v.example;
            }
            e.count += v.count;
        }
        self.inconclusive.extend(other.inconclusive);
        self.notes.extend(other.notes);
    }
    pub fn distinct_nontrivial(&mut self) -> u64 {
        self.nontrivial_hashes.sort_unstable();
        self.nontrivial_hashes.dedup();
        self.nontrivial_hashes.len() as u64
    }
}
