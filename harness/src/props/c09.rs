//! C09 — one host call executes at most one statement and always hands control back.
//!
//! Events per call (tracing on): trace records, print records, reads of the token cursor (hook counter),
//! token count of the executing line (snapshot). Oracles: per-turn equality with M-prog's turn sequence;
//! structural bounds for arbitrary token-soup programs; a work bound in token reads; non-terminating
//! programs stay interruptible.

use crate::cmp::{compare_turns, CmpOpts};
use crate::drive::{flush_trips, Op, Out, Session};
use crate::exec;
use crate::gen::prog::{self, GenOpts};
use crate::gen::toks;
use crate::report::Report;
use crate::runner::{Check, Ctx, Finalize, Tier, Workload};
use crate::util::hash_str;
use abasic_core::InterpreterState;
use serde_json::json;

pub fn check() -> Check {
    Check { id: "C09", plan, run_case, finalize }
}

/// token-cursor reads allowed per call: WORK_K * (tokens on the executing line + 1).
/// Measured maximum on the pinned tree: 7.3 reads per token (recorded in the
/// evidence as maxima.reads_per_token_x100); the bound is 4x that.
pub const WORK_K: u64 = 30;

fn plan(tier: Tier) -> Vec<Workload> {
    vec![
        Workload::new("turns", tier.pick(100_000, 2_000_000)),
        Workload::new("bounds", tier.pick(60_000, 600_000)),
        Workload::new("nonterm", tier.pick(64, 640)),
        Workload::new("datascan", 16),
        Workload::new("adapter", tier.pick(20_000, 300_000)),
        // the work of one call must not depend on the VALUES it computes with
        Workload::new("values", tier.pick(4_000, 60_000)),
        // lines typed at the prompt obey the same rule, with or without a breakpoint pending
        Workload::new("immediate", tier.pick(6_000, 100_000)),
        // CONT executes one statement like any other call, whatever was suspended and abandoned earlier in the session
        Workload::new("resume", tier.pick(6_000, 100_000)),
    ]
}

fn line_tokens(sess: &Session, line: Option<u64>) -> Option<u64> {
    let snap = sess.last_snapshot.as_ref()?;
    let l = line?;
    snap.line_token_counts.binary_search_by(|(n, _)| n.cmp(&l)).ok().map(|i| snap.line_token_counts[i].1 as u64)
}

/// Check the work bound of the call that was just made. `line_before` = line the interpreter was on.
fn work_check(ctx: &Ctx, rep: &mut Report, index: u64, sess: &Session, l_tokens: u64, case: &dyn Fn() -> serde_json::Value) {
    let rec = sess.log.last().unwrap();
    let bound = WORK_K * (l_tokens + 1);
    rep.max("reads_per_token_x100", rec.token_reads * 100 / (l_tokens + 1));
    rep.count("calls_work_checked");
    if rec.token_reads > bound {
        ctx.violation(rep, "C09", "work-bound", index,
            format!("one call read the token cursor {} times while executing a line of {} tokens (bound {})", rec.token_reads, l_tokens, bound),
            case());
    }
    if rec.data_scan > bound {
        ctx.known_or_violation(rep, "C09-KF1", "C09", "data-scan", index,
            format!("one call executing READ visited {} program tokens to rebuild the DATA index while the executing line has {} tokens (bound {})", rec.data_scan, l_tokens, bound),
            case());
    }
}

fn run_case(ctx: &Ctx, index: u64, rep: &mut Report) {
    let mut rng = ctx.rng(index);
    match ctx.workload.as_str() {
        "turns" => {
            let opts = GenOpts { inputs: true, stops: false, kf_permille: 0, ..GenOpts::default() };
            let g = prog::generate(&mut rng, &opts);
            let seed = rng.below(1 << 33);
            let cap = 3000;
            let model = exec::run_model(&g.prog, seed, &g.replies, cap);
            let mut sess = Session::new();
            sess.it.enable_tracing = true;
            sess.call(Op::Randomize(seed));
            if let Err(m) = exec::load_program(&mut sess, &g.prog) {
                ctx.violation(rep, "C09", "load-rejected", index, m, exec::program_json(&g.prog));
                return;
            }
            let uses_fn = g.features.contains("FN-call") || g.features.contains("DEF");
            // drive manually so that the work bound can be checked per call
            let first_line_tokens = sess.snapshot().line_token_counts.first().map(|x| x.1 as u64).unwrap_or(0);
            let mut real = exec::RealRun::default();
            let case = || json!({"program": exec::program_json(&g.prog), "replies": g.replies});
            let mut line_before: Option<u64> = None;
            let mut step = |sess: &mut Session, real: &mut exec::RealRun, op: Op, was_reply: bool, rep: &mut Report, line_before: &mut Option<u64>| {
                let l_tokens = if real.turns.is_empty() { first_line_tokens } else { line_tokens(sess, *line_before).unwrap_or(0) };
                let rec = sess.call(op).clone();
                if !uses_fn {
                    work_check(ctx, rep, index, sess, l_tokens, &case);
                }
                *line_before = sess.last_snapshot.as_ref().and_then(|s| s.location.line);
                real.turns.push(exec::RealTurn { outs: rec.outs, res: rec.res, state: rec.state, token_reads: rec.token_reads, data_scan: rec.data_scan, was_reply, digest: None });
            };
            step(&mut sess, &mut real, Op::Line("RUN".into()), false, rep, &mut line_before);
            loop {
                if sess.poisoned || !real.turns.last().unwrap().res.is_ok() {
                    break;
                }
                if real.turns.len() >= cap {
                    real.capped = true;
                    break;
                }
                match sess.state() {
                    InterpreterState::Running => step(&mut sess, &mut real, Op::Cont, false, rep, &mut line_before),
                    InterpreterState::AwaitingInput => {
                        let text = exec::reply_at(&g.replies, real.replies_given);
                        real.replies_given += 1;
                        sess.call(Op::Input(text));
                        step(&mut sess, &mut real, Op::Cont, true, rep, &mut line_before);
                    }
                    _ => break,
                }
            }
            flush_trips(ctx, rep, index, &sess, || exec::program_json(&g.prog));
            let cmp = match compare_turns(&real, &model, CmpOpts { tracing: true, warnings: false }) {
                Err(_) if crate::cmp::align_calls(&real, &model).is_ok() => {
                    // the calls fall differently from the model's turns, but every call still holds at most one
                    // statement and the flattened records agree: the property holds
                    rep.count("tolerated.turn_boundaries_differ_from_model");
                    Ok(real.turns.len().min(model.turns.len()))
                }
                other => other,
            };
            match cmp {
                Ok(n) => {
                    rep.add("turns_compared", n as u64);
                    let has_if = model.kinds.contains(&"IF");
                    let looped = model.kinds.contains(&"NEXT");
                    if n >= 50 && has_if && looped {
                        rep.nontrivial(hash_str(&g.prog.text()));
                    }
                    rep.max("max_turns_one_program", n as u64);
                    if rep.want_sample() && index % 997 == 0 {
                        let per_turn: Vec<_> = real.turns.iter().take(12).map(|t| {
                            let tr = t.outs.iter().filter(|o| matches!(o, Out::Trace(_))).count();
                            let pr = t.outs.iter().filter(|o| matches!(o, Out::Print(_))).count();
                            json!({"traces": tr, "prints": pr, "token_reads": t.token_reads})
                        }).collect();
                        rep.sample(json!({"program": exec::program_json(&g.prog), "first_turns": per_turn, "turns": n}));
                    }
                }
                Err((i, why)) => {
                    ctx.violation(rep, "C09", "turn-sequence", index,
                        format!("per-turn behaviour differs from one-statement-per-call: {}", why),
                        json!({"program": exec::program_json(&g.prog), "replies": g.replies, "turn": i + 1}));
                }
            }
        }
        "bounds" => {
            // token-soup programs: structural bounds only
            let mut sess = Session::new();
            sess.it.enable_tracing = true;
            let mut then_else: std::collections::HashMap<u64, u64> = Default::default();
            let mut texts = vec![];
            // half of the programs are pure token soup, half are G-prog programs with a few lines
            // replaced by / extended with token soup (they run for a while before failing)
            let bodies: Vec<String> = if rng.coin() {
                (0..1 + rng.usize(12)).map(|_| toks::join(&toks::random_pieces(&mut rng, 10))).collect()
            } else {
                let g = prog::generate(&mut rng, &GenOpts { inputs: true, functions: false, ..GenOpts::default() });
                g.prog.lines.iter().map(|l| {
                    let b = l.body_text();
                    match rng.below(12) {
                        0 => toks::join(&toks::random_pieces(&mut rng, 8)),
                        1 => format!("{} : {}", b, toks::join(&toks::random_pieces(&mut rng, 5))),
                        2 => format!("IF {} THEN {}", rng.s(&["1", "0", "X", "A$"]), b),
                        _ => b,
                    }
                }).collect()
            };
            for (k, body) in bodies.iter().enumerate() {
                let number = 10 * (k as u64 + 1);
                let line = format!("{} {}", number, body);
                if let Ok(tokens) = abasic_core::verif_hooks::tokenize(&line, line.find(' ').unwrap_or(0)) {
                    let n = tokens.iter().filter(|t| t.debug == "Then" || t.debug == "Else").count() as u64;
                    then_else.insert(number, n);
                }
                let rec = sess.call(Op::Line(line.clone()));
                if rec.res.is_ok() {
                    texts.push(line);
                }
            }
            let case = || json!({"program": texts});
            let mut line_before = sess.snapshot().set_lines.first().copied();
            let mut op = Op::Line("RUN".into());
            let mut turns = 0u64;
            loop {
                let l_tokens = line_tokens(&sess, line_before).or_else(|| {
                    let s = sess.snapshot();
                    s.line_token_counts.first().map(|x| x.1 as u64)
                }).unwrap_or(0);
                let rec = sess.call(op).clone();
                turns += 1;
                let traces: Vec<u64> = rec.outs.iter().filter_map(|o| if let Out::Trace(l) = o { Some(*l) } else { None }).collect();
                let prints = rec.outs.iter().filter(|o| matches!(o, Out::Print(_))).count();
                rep.count("calls_bounds_checked");
                if prints > 1 {
                    ctx.violation(rep, "C09", "two-prints", index, format!("one call produced {} PRINT records", prints), case());
                    break;
                }
                if let Some(lb) = line_before {
                    let allowed = 1 + then_else.get(&lb).copied().unwrap_or(0);
                    if traces.len() as u64 > allowed {
                        ctx.violation(rep, "C09", "too-many-traces", index,
                            format!("one call on line {} produced {} trace records (at most {} statements can be selected on that line)", lb, traces.len(), allowed), case());
                        break;
                    }
                    if traces.iter().any(|t| *t != lb) {
                        ctx.violation(rep, "C09", "trace-other-line", index,
                            format!("one call that started on line {} traced lines {:?}", lb, traces), case());
                        break;
                    }
                }
                let no_functions = sess.last_snapshot.as_ref().map(|s| s.functions.is_empty()).unwrap_or(true);
                if no_functions {
                    work_check(ctx, rep, index, &sess, l_tokens, &case);
                }
                line_before = sess.last_snapshot.as_ref().and_then(|s| s.location.line);
                if sess.poisoned || !rec.res.is_ok() || turns >= 300 {
                    break;
                }
                match sess.state() {
                    InterpreterState::Running => op = Op::Cont,
                    InterpreterState::AwaitingInput => {
                        sess.call(Op::Input(crate::gen::text::random_reply(&mut rng)));
                        op = Op::Cont;
                    }
                    _ => break,
                }
            }
            flush_trips(ctx, rep, index, &sess, case);
            if turns >= 5 {
                rep.count("bounds.programs_with_5_turns");
            }
        }
        "nonterm" => {
            let programs: [&[&str]; 6] = [
                &["10 GOTO 10"],
                &["10 FOR I = 1 TO 3", "20 GOTO 10"],
                &["10 X = X + 1 : IF X THEN 10"],
                &["10 FOR I = 1 TO 2 STEP 0 : NEXT I"],
                &["10 FOR I = 1 TO 2", "20 FOR J = 1 TO 2", "30 NEXT I", "40 GOTO 10"],
                &["10 READ A$ : RESTORE : GOTO 10", "20 DATA x"],
            ];
            let p = programs[(index % 6) as usize];
            let mut sess = Session::new();
            sess.keep_log = false;
            for l in p {
                sess.call(Op::Line(l.to_string()));
            }
            let total = 10_000u64;
            let break_at = 1 + rng.below(total - 1);
            let mut rec = sess.call(Op::Line("RUN".into())).clone();
            let mut turns = 1u64;
            let mut broke = false;
            while turns < total {
                if !rec.res.is_ok() || sess.state() != InterpreterState::Running {
                    ctx.violation(rep, "C09", "nonterm-stopped", index,
                        format!("non-terminating program {:?} stopped after {} turns: state {:?} result {}", p, turns, sess.state(), rec.res.to_json()),
                        json!({"program": p}));
                    return;
                }
                if turns == break_at && !broke {
                    sess.call(Op::Break);
                    broke = true;
                    if sess.state() != InterpreterState::Idle {
                        ctx.violation(rep, "C09", "break-not-idle", index, format!("break after {} turns left state {:?}", turns, sess.state()), json!({"program": p}));
                        return;
                    }
                    rep.count("nonterm.breaks");
                    rec = sess.call(Op::Line("CONT".into())).clone();
                    turns += 1;
                    continue;
                }
                rec = sess.call(Op::Cont).clone();
                turns += 1;
                if let Some(s) = &sess.last_snapshot {
                    rep.max("nonterm.max_loops", s.loops.len() as u64);
                }
            }
            rep.add("nonterm.turns", turns);
            flush_trips(ctx, rep, index, &sess, || json!({"program": p}));
            rep.nontrivial(hash_str(&format!("nonterm{}-{}", index % 6, break_at)));
        }
        "datascan" => {
            // a long program whose first READ has to index every DATA statement
            let mut sess = Session::new();
            sess.keep_log = false;
            let n = 150 + 10 * index;
            sess.call(Op::Line("10 READ A".into()));
            for k in 0..n {
                sess.call(Op::Line(format!("{} DATA {}, {}", 100 + k, k, k + 1)));
            }
            sess.keep_log = true;
            let l_tokens = 2;
            sess.call(Op::Line("RUN".into()));
            work_check(ctx, rep, index, &sess, l_tokens, &|| json!({"program": format!("10 READ A + {} DATA lines", n)}));
            rep.count("datascan.programs");
        }
        "adapter" => {
            // the same question asked of the Web adapter's start_evaluating / continue_evaluating: the calls the
            // page makes from its timer. Structural bound per call plus "as many calls as the core needs".
            use abasic_web::{JsInterpreter, JsInterpreterOutputType, JsInterpreterState};
            let g = prog::generate(&mut rng, &GenOpts { inputs: true, stops: false, kf_permille: 0, ..GenOpts::default() });
            let seed = rng.below(1 << 33);
            let cap = 3000usize;
            let traced = rng.coin();
            let lines = g.prog.text_lines();
            let max_then_else = lines.iter().map(|l| {
                abasic_core::verif_hooks::tokenize(l, l.find(' ').unwrap_or(0)).map(|t| t.iter().filter(|t| t.debug == "Then" || t.debug == "Else").count()).unwrap_or(0)
            }).max().unwrap_or(0);
            // core
            let mut sess = Session::new();
            sess.keep_log = false;
            sess.it.enable_tracing = true;
            sess.call(Op::Randomize(seed));
            if exec::load_program(&mut sess, &g.prog).is_err() {
                return;
            }
            let mut core_calls = 1usize;
            let mut core_replies = 0usize;
            let mut ok = sess.call(Op::Line("RUN".into())).res.is_ok();
            while ok && core_calls < cap && !sess.poisoned {
                match sess.state() {
                    InterpreterState::Running => {}
                    InterpreterState::AwaitingInput => {
                        sess.call(Op::Input(exec::reply_at(&g.replies, core_replies)));
                        core_replies += 1;
                    }
                    _ => break,
                }
                ok = sess.call(Op::Cont).res.is_ok();
                core_calls += 1;
            }
            // adapter
            let case = || json!({"program": lines, "replies": g.replies, "seed": seed});
            let outcome = crate::util::catch(|| {
                let mut js = JsInterpreter::default();
                js.randomize(seed);
                for l in &lines {
                    js.start_evaluating(l.clone());
                    if js.take_latest_error().is_some() {
                        return Err("load".to_string());
                    }
                    js.take_latest_output();
                }
                // with TRACE every statement leaves a record (the structural bound applies); without it a run
                // is "quiet" and only the number of calls tells how many statements went into one call
                if traced {
                    js.start_evaluating("TRACE".into());
                    js.take_latest_output();
                }
                let mut calls = 0usize;
                let mut replies = 0usize;
                let mut worst: Option<String> = None;
                js.start_evaluating("RUN".into());
                loop {
                    calls += 1;
                    let outs = js.take_latest_output();
                    let traces = outs.iter().filter(|o| matches!(o.output_type, JsInterpreterOutputType::Trace)).count();
                    let prints = outs.iter().filter(|o| matches!(o.output_type, JsInterpreterOutputType::Print)).count();
                    if (prints > 1 || traces > 1 + max_then_else) && worst.is_none() {
                        worst = Some(format!("adapter call {} produced {} trace and {} print records (no line of the program can select more than {} statements)", calls, traces, prints, 1 + max_then_else));
                    }
                    if js.take_latest_error().is_some() || calls >= cap {
                        break;
                    }
                    match js.get_state() {
                        JsInterpreterState::Running => {}
                        JsInterpreterState::AwaitingInput => {
                            js.provide_input(exec::reply_at(&g.replies, replies));
                            replies += 1;
                        }
                        _ => break,
                    }
                    js.continue_evaluating();
                }
                Ok((calls, worst))
            });
            match outcome {
                Ok(Ok((calls, worst))) => {
                    rep.add("adapter.calls", calls as u64);
                    if let Some(w) = worst {
                        ctx.violation(rep, "C09", "adapter-call-holds-several-statements", index, w, case());
                    } else if calls != core_calls && !sess.poisoned {
                        ctx.violation(rep, "C09", "adapter-call-count", index,
                            format!("the adapter needed {} start/continue calls for a run the core needs {} calls for", calls, core_calls), case());
                    } else if calls >= 50 {
                        rep.nontrivial(hash_str(&g.prog.text()));
                    }
                }
                Ok(Err(_)) => rep.count("adapter.load_rejected"),
                Err(_) => rep.count("adapter.panic_left_to_C19"),
            }
        }
        "values" => {
            // one statement whose operands are huge, tiny or special values: the call must come back (CPU-time
            // watchdog of the worker, token-read budget of the driver) after work bounded by the length of the line
            let big = |rng: &mut crate::util::Rng| -> String {
                match rng.below(8) {
                    0 => "4000000000".to_string(),
                    1 => "1000000000000000000".to_string(),
                    2 => "9007199254740992".to_string(),
                    3 => "9007199254740993".to_string(),
                    4 => format!("1{}", "0".repeat(20 + rng.usize(280))),
                    5 => "18446744073709551616".to_string(),
                    6 => "4294967296".to_string(),
                    _ => format!("{}", rng.next_u64()),
                }
            };
            let base = rng.s(&["1", "-1", "(-1)", "0", "2", "-2", ".5", "1.0000001", "X", "(0-1)", "10"]).to_string();
            let b = big(&mut rng);
            let sign = if rng.chance(1, 4) { "-" } else { "" };
            let line = match rng.below(10) {
                0..=3 => format!("PRINT {} ^ {}{}", base, sign, b),
                4 => format!("X = {} : PRINT {} ^ X", b, base),
                5 => format!("PRINT INT({}{}) ; ABS({}{})", sign, b, sign, b),
                6 => format!("FOR I = 1 TO {}{} STEP {}", sign, b, rng.s(&["1", "0", "-1", "4000000000"])),
                7 => format!("DIM A({})", b),
                8 => format!("PRINT RND({}) ; {} * {} ; {} / {}", b, b, b, b, base),
                _ => format!("IF {} ^ {} THEN PRINT {} ^ {}{}", base, b, base, sign, b),
            };
            let mut sess = Session::new();
            let case = || json!({"line": line});
            let l_tokens = abasic_core::verif_hooks::tokenize(&line, 0).map(|t| t.len() as u64).unwrap_or(0);
            let rec = sess.call(Op::Line(line.clone())).clone();
            work_check(ctx, rep, index, &sess, l_tokens, &case);
            let mut turns = 1;
            while !sess.poisoned && rec.res.is_ok() && sess.state() == InterpreterState::Running && turns < 6 {
                sess.call(Op::Cont);
                work_check(ctx, rep, index, &sess, l_tokens, &case);
                turns += 1;
            }
            flush_trips(ctx, rep, index, &sess, case);
            rep.count("values.statements");
            rep.nontrivial(hash_str(&line));
        }
        "immediate" => {
            // a program suspended by STOP or by a host break; then a multi-statement line typed at the prompt.
            // Twin: the same history plus an edit (which drops the breakpoint and keeps the variables).
            let stop_at = 1 + rng.below(4);
            let program = [
                "10 A = 1 : B$ = \"s\" : DIM T(3)".to_string(),
                format!("20 FOR I = 1 TO 5 : A = A + I : IF I = {} THEN STOP", stop_at),
                "30 NEXT I".to_string(),
                "40 PRINT \"done\"; A".to_string(),
            ];
            let typed: String = match rng.below(8) {
                0 => "PRINT A : PRINT A + 1".into(),
                1 => "X = 1 : Y = 2 : PRINT X + Y : PRINT B$".into(),
                2 => "FOR K = 1 TO 3 : PRINT K : NEXT K".into(),
                3 => "FOR K = 1 TO 2 STEP 0 : Q = Q + 1 : NEXT K".into(),
                4 => "PRINT \"a\"; : PRINT \"b\" : PRINT \"c\";".into(),
                5 => "T(1) = 5 : T(2) = T(1) * 2 : PRINT T(2) : PRINT 1/0 : PRINT \"not reached\"".into(),
                6 => ": : PRINT 1 : : PRINT 2".into(),
                _ => {
                    let g = prog::generate(&mut rng, &GenOpts { inputs: false, stops: false, functions: false, max_main_blocks: 1, ..GenOpts::default() });
                    // (only statements that do not look at what the twin's edit invalidates: open loops, frames, the DATA
                    // cursor, defined functions. NEXT I would continue the suspended program's loop in one session and
                    // fail in the other, quite correctly.)
                    g.prog.lines.iter().map(|l| l.body_text())
                        .filter(|b| !["GOTO", "GOSUB", "THEN", "NEXT", "RETURN", "READ", "RESTORE", "FN", "END", "STOP"].iter().any(|w| b.contains(w)))
                        .take(2).collect::<Vec<_>>().join(" : ")
                }
            };
            let host_break = rng.coin();
            let build = |edit: bool| -> Session {
                let mut s = Session::new();
                s.keep_log = false;
                for l in &program {
                    s.call(Op::Line(l.clone()));
                }
                s.call(Op::Line("RUN".into()));
                let mut n = 0;
                while !s.poisoned && s.state() == InterpreterState::Running && n < 400 {
                    if host_break && n == 7 {
                        s.call(Op::Break);
                        break;
                    }
                    s.call(Op::Cont);
                    n += 1;
                }
                if edit {
                    s.call(Op::Line("9999 REM drops the breakpoint".into()));
                }
                s
            };
            let mut a = build(false);
            let mut b = build(true);
            let case = || json!({"program": program, "typed": typed, "suspended_by": if host_break { "host break" } else { "STOP" }});
            let pending = a.snapshot().breakpoint.is_some();
            if pending {
                rep.count("immediate.breakpoint_pending");
            }
            let run = |s: &mut Session| -> Vec<(usize, String, String)> {
                let mut v = vec![];
                if s.poisoned || s.state() != InterpreterState::Idle {
                    return v;
                }
                let mut rec = s.call(Op::Line(typed.clone())).clone();
                loop {
                    let prints = rec.outs.iter().filter(|o| matches!(o, Out::Print(_))).count();
                    v.push((prints, format!("{:?}", rec.outs), format!("{:?} {:?}", rec.state, rec.res.outcome())));
                    if s.poisoned || !rec.res.is_ok() || s.state() != InterpreterState::Running || v.len() >= 120 {
                        break;
                    }
                    rec = s.call(Op::Cont).clone();
                }
                v
            };
            let (va, vb) = (run(&mut a), run(&mut b));
            flush_trips(ctx, rep, index, &a, case);
            flush_trips(ctx, rep, index, &b, case);
            if let Some(k) = va.iter().position(|c| c.0 > 1) {
                ctx.violation(rep, "C09", "immediate-two-prints", index,
                    format!("call {} of the typed line `{}` (breakpoint pending: {}) produced {} PRINT records: {}", k + 1, typed, pending, va[k].0, va[k].1), case());
            } else if va != vb && !a.poisoned && !b.poisoned {
                let k = va.iter().zip(vb.iter()).position(|(x, y)| x != y).unwrap_or(va.len().min(vb.len()));
                ctx.violation(rep, "C09", "immediate-calls-differ", index,
                    format!("the typed line `{}` takes {} calls with a breakpoint pending and {} calls without; first difference at call {}: {:?} vs {:?}",
                        typed, va.len(), vb.len(), k + 1, va.get(k), vb.get(k)), case());
            } else {
                rep.add("immediate.calls_compared", va.len() as u64);
                if va.len() >= 3 {
                    rep.nontrivial(hash_str(&format!("imm|{}|{}|{}", typed, stop_at, host_break)));
                }
            }
        }
        "resume" => {
            // the same run, the same break, the same CONT on an interpreter with a past (a suspension that was never
            // resumed) and on a fresh one: identical records call by call
            let g = prog::generate(&mut rng, &GenOpts { inputs: false, stops: false, kf_permille: 0, failure_permille: 0, ..GenOpts::default() });
            let seed = rng.below(1 << 33);
            let break_after = 1 + rng.below(25);
            let past: Vec<&str> = match rng.below(5) {
                0 => vec!["STOP"],
                1 => vec!["9000 PRINT 1 : STOP", "GOTO 9000", "9000"],
                2 => vec!["9000 STOP", "9010 PRINT 2", "GOTO 9000", "9000", "9010"],
                3 => vec!["STOP", "CONT"],
                _ => vec!["9000 STOP", "GOTO 9000", "CONT", "9000"],
            };
            let run = |with_past: bool| -> (Vec<String>, bool) {
                let mut s = Session::new();
                s.keep_log = false;
                s.it.enable_tracing = true;
                if exec::load_program(&mut s, &g.prog).is_err() {
                    return (vec![], true);
                }
                if with_past {
                    for l in &past {
                        s.run_line(l, 5);
                        // (a suspension is left as it is: no settle)
                        if s.state() != InterpreterState::Idle {
                            s.settle();
                        }
                    }
                }
                s.call(Op::Randomize(seed));
                let mut v = vec![];
                let mut rec = s.call(Op::Line("RUN".into())).clone();
                let mut n = 0u64;
                let mut broke = false;
                loop {
                    v.push(format!("{:?} {:?} {:?}", rec.outs, rec.state, rec.res.outcome()));
                    if s.poisoned || !rec.res.is_ok() || v.len() > 400 {
                        break;
                    }
                    match s.state() {
                        InterpreterState::Running => {
                            n += 1;
                            if n == break_after && !broke {
                                broke = true;
                                s.call(Op::Break);
                                rec = s.call(Op::Line("CONT".into())).clone();
                            } else {
                                rec = s.call(Op::Cont).clone();
                            }
                        }
                        _ => break,
                    }
                }
                (v, s.poisoned)
            };
            let (a, pa) = run(true);
            let (b, pb) = run(false);
            rep.count("resume.pairs");
            if !pa && !pb && a != b {
                let k = a.iter().zip(b.iter()).position(|(x, y)| x != y).unwrap_or(a.len().min(b.len()));
                ctx.violation(rep, "C09", "resume-depends-on-abandoned-suspension", index,
                    format!("after the typed lines {:?} (a suspension that was never resumed), RUN + break after {} turns + CONT gives call #{} = {:?}; on a fresh interpreter {:?}", past, break_after, k + 1, a.get(k), b.get(k)),
                    json!({"program": exec::program_json(&g.prog), "typed_before": past, "break_after_turns": break_after}));
            } else if a.len() > break_after as usize {
                rep.nontrivial(hash_str(&format!("resume|{}|{:?}|{}", g.prog.text(), past, break_after)));
            }
        }
        other => panic!("unknown workload {}", other),
    }
}

fn finalize(_tier: Tier, rep: &mut Report) -> Finalize {
    Finalize {
        rule: "turns: G-prog programs (with INPUT) run with tracing on; the per-call sequence (trace records, print records, other records, state, result) must equal M-prog's per-turn sequence, which charges one turn per statement and per `:` and counts an IF plus the statement chain it selects as one. \
               bounds: programs of random token lines: per call at most one PRINT record, at most 1 + (#THEN + #ELSE on the line) trace records, all naming the line the call started on. \
               work: for programs without user-defined functions every call's token-cursor reads <= 30 x (tokens on the executing line + 1). nonterm: six non-terminating programs driven 10000 turns with a break + CONT at a random turn. \
               values: single statements with huge / special operand values (whole-number powers of 1, -1, 0, 2 with exponents up to 10^300, INT/ABS/RND of them, FOR bounds, DIM sizes): the call returns within the token-read budget and the worker's CPU-time budget (a logical watchdog: CPU time of the calling thread, not wall time) and satisfies the work bound. \
               immediate: a multi-statement line typed at the prompt while a program is suspended (STOP or host break) takes the same calls, with the same records per call, as in a twin session whose breakpoint was dropped by an edit; never two PRINT records in one call; a non-terminating typed line stays interruptible. \
               resume: RUN, a host break after k turns and CONT, once on an interpreter on which a STOP (typed, or ending a program line) suspended something that was never resumed, once on a fresh one: identical records call by call. \
               adapter: G-prog programs run through the Web adapter (JsInterpreter::start_evaluating / continue_evaluating, TRACE on in half of the cases): per call at most one PRINT record and at most 1 + max(#THEN + #ELSE of any line) trace records, and as many calls as the core interpreter needs for the same run. \
               Non-trivial (turns): >= 50 turns compared in a program that executed an IF and a NEXT; every nonterm run counts. Distinct by program hash.".into(),
        floors: vec![
            ("turns_compared".into(), 300_000),
            ("calls_bounds_checked".into(), 50_000),
            ("calls_work_checked".into(), 200_000),
            ("nonterm.turns".into(), 500_000),
            ("nonterm.breaks".into(), 50),
            ("adapter.calls".into(), 200_000),
            ("values.statements".into(), 3_000),
            ("immediate.calls_compared".into(), 15_000),
            ("resume.pairs".into(), 5_000),
            ("immediate.breakpoint_pending".into(), 3_000),
            ("distinct_nontrivial".into(), 300),
        ],
        assumptions: vec![
            "work is measured as reads of the token cursor (hook counter in Program::peek_next_token) plus tokens visited while building the DATA index; wall-clock time is never used".into(),
        ],
        exhaustive: false,
        extras: json!({"work_bound": "reads <= 30*(L+1)", "measured_max_reads_per_token_x100": rep.get_max("reads_per_token_x100")}),
    }
}
