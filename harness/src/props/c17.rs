//! C17 — tracing and warnings never change what a program does.
//!
//! (a) metamorphic: the same program + replies + seed under the four on/off configurations (set through
//!     the API fields, or tracing through the TRACE / NOTRACE commands) gives identical per-turn outputs once
//!     Trace and Warning records are deleted, identical states/results and identical final variables/arrays.
//! (b)+(c) with both options on, the per-turn trace and warning records equal M-prog's (trace = every
//!     statement entry on a numbered line; warning = expression read of a never-assigned scalar, or touch of
//!     an array that does not exist yet), and immediate-mode lines are never traced.

use crate::cmp::{compare_turns, CmpOpts};
use crate::drive::{flush_trips, Op, Out, Session};
use crate::exec::{self, RealRun};
use crate::gen::prog::{self, GenOpts};
use crate::model::prog::Ev;
use crate::report::Report;
use crate::runner::{Check, Ctx, Finalize, Tier, Workload};
use crate::util::hash_str;
use serde_json::json;

pub fn check() -> Check {
    Check { id: "C17", plan, run_case, finalize }
}

fn plan(tier: Tier) -> Vec<Workload> {
    vec![
        Workload::new("programs", tier.pick(80_000, 1_500_000)),
        // options switched in the middle of a session (after runs, replies, breaks), then RUN
        Workload::new("switch", tier.pick(30_000, 500_000)),
    ]
}

fn strip(run: &RealRun) -> Vec<(Vec<Out>, String, String, bool)> {
    run.turns
        .iter()
        .map(|t| {
            let outs: Vec<Out> = t.outs.iter().filter(|o| !matches!(o, Out::Trace(_) | Out::Warning(_, _))).cloned().collect();
            (outs, format!("{:?}", t.state), format!("{:?}", t.res.outcome()), t.was_reply)
        })
        .collect()
}

/// A session that first runs the program (or part of it) under one configuration, then switches the options
/// (field or TRACE/NOTRACE command) and RUNs again: the second run must produce exactly the records of a
/// fresh run under the new configuration.
fn run_switch(ctx: &Ctx, index: u64, rep: &mut Report) {
    let mut rng = ctx.rng(index);
    let opts = GenOpts { inputs: true, input_boost: rng.coin(), stops: false, kf_permille: 0, failure_permille: 60, ..GenOpts::default() };
    let g = prog::generate(&mut rng, &opts);
    let seed = rng.below(1 << 33);
    let cap = 2000;
    let mut sess = Session::new();
    sess.keep_log = false;
    let (t0, w0) = (rng.coin(), rng.coin());
    sess.it.enable_tracing = t0;
    sess.it.enable_warnings = w0;
    if exec::load_program(&mut sess, &g.prog).is_err() {
        return;
    }
    // first life of the session: a run that ends, fails, or is broken into (possibly with a reply pending)
    let how = rng.below(5);
    match how {
        0 | 1 => {
            let _ = exec::run_real(&mut sess, "RUN", &g.replies, cap);
        }
        2 => {
            let _ = exec::run_real(&mut sess, "RUN", &g.replies, 1 + rng.usize(30));
        }
        3 => {
            // stop while awaiting input, or right after handing over a reply
            sess.call(Op::Line("RUN".into()));
            let mut n = 0;
            while !sess.poisoned && n < 200 {
                match sess.state() {
                    abasic_core::InterpreterState::Running => { sess.call(Op::Cont); }
                    abasic_core::InterpreterState::AwaitingInput => {
                        if rng.coin() {
                            sess.call(Op::Input("7".into()));
                        }
                        break;
                    }
                    _ => break,
                }
                n += 1;
            }
        }
        _ => {
            // immediate-mode INPUT answered, then into the program with GOTO
            sess.run_line("INPUT Q7", 3);
            if sess.state() == abasic_core::InterpreterState::AwaitingInput {
                sess.call(Op::Input("5".into()));
                let mut o = crate::drive::RunOut::default();
                sess.drive(5, &mut o);
            }
        }
    }
    if sess.poisoned {
        flush_trips(ctx, rep, index, &sess, || exec::program_json(&g.prog));
        return;
    }
    sess.settle();
    // switch
    let (t1, w1) = (rng.chance(3, 4), rng.coin());
    if rng.coin() {
        sess.call(Op::Line(if t1 { "TRACE".into() } else { "NOTRACE".into() }));
    } else {
        sess.it.enable_tracing = t1;
    }
    sess.it.enable_warnings = w1;
    sess.call(Op::Randomize(seed));
    let model = exec::run_model(&g.prog, seed, &g.replies, cap);
    let start = if how == 4 && rng.coin() {
        // GOTO the first line: same as RUN for a program that keeps no state... only when nothing was run before
        "RUN".to_string()
    } else {
        "RUN".to_string()
    };
    let real = exec::run_real(&mut sess, &start, &g.replies, if model.capped { cap } else { model.turns.len() + 32 });
    flush_trips(ctx, rep, index, &sess, || exec::program_json(&g.prog));
    let o = CmpOpts { tracing: t1, warnings: w1 };
    let ok = compare_turns(&real, &model, o).is_ok() || crate::cmp::compare_flat(&real, &model, o).is_ok();
    if !ok {
        let why = compare_turns(&real, &model, o).err().map(|e| e.1).unwrap_or_default();
        ctx.violation(rep, "C17", "switch-sequence", index,
            format!("after a first life under tracing={} warnings={} (kind {}), switching to tracing={} warnings={} and RUN: {}", t0, w0, how, t1, w1, why),
            json!({"program": exec::program_json(&g.prog), "replies": g.replies, "first_life": how}));
        return;
    }
    rep.count("switch.sessions");
    rep.count(&format!("switch.first_life_{}", how));
    if t1 != t0 || w1 != w0 {
        rep.count("switch.configuration_actually_changed");
        rep.nontrivial(hash_str(&format!("sw{}{}{}", g.prog.text(), how, t1)));
    }
}

fn run_case(ctx: &Ctx, index: u64, rep: &mut Report) {
    if ctx.workload == "switch" {
        return run_switch(ctx, index, rep);
    }
    let mut rng = ctx.rng(index);
    let opts = GenOpts { inputs: true, stops: false, kf_permille: 0, failure_permille: 80, ..GenOpts::default() };
    let g = prog::generate(&mut rng, &opts);
    let seed = rng.below(1 << 33);
    let cap = 2500;
    let via_command = rng.coin();
    let model = exec::run_model(&g.prog, seed, &g.replies, cap);
    let mut runs: Vec<(bool, bool, RealRun, Option<Vec<String>>)> = vec![];
    for (tracing, warnings) in [(false, false), (true, false), (false, true), (true, true)] {
        let mut sess = Session::new();
        sess.keep_log = false;
        sess.it.enable_warnings = warnings;
        if via_command {
            // a previous NOTRACE/TRACE pair must leave exactly the last setting
            sess.call(Op::Line(if tracing { "NOTRACE".into() } else { "TRACE".into() }));
            sess.call(Op::Line(if tracing { "trace".into() } else { "notrace".into() }));
        } else {
            sess.it.enable_tracing = tracing;
        }
        sess.call(Op::Randomize(seed));
        if let Err(m) = exec::load_program(&mut sess, &g.prog) {
            ctx.violation(rep, "C17", "load-rejected", index, m, exec::program_json(&g.prog));
            return;
        }
        let real = exec::run_real(&mut sess, "RUN", &g.replies, if model.capped { cap } else { model.turns.len() + 32 });
        // immediate-mode lines are never traced
        if !sess.poisoned {
            sess.settle();
            let before = sess.snapshot();
            let r = sess.run_line("PRINT 1 : Q7 = 2", 10);
            if r.outs.iter().any(|o| matches!(o, Out::Trace(_))) {
                ctx.violation(rep, "C17", "immediate-traced", index,
                    "an immediate-mode line produced a trace record".into(),
                    json!({"program": exec::program_json(&g.prog), "tracing": tracing}));
            }
            let _ = before;
        }
        flush_trips(ctx, rep, index, &sess, || exec::program_json(&g.prog));
        let final_digest = real.turns.last().and_then(|t| t.digest.clone());
        runs.push((tracing, warnings, real, final_digest));
    }
    // (a) pairwise against configuration off/off
    let base = strip(&runs[0].2);
    for (tracing, warnings, run, digest) in runs.iter().skip(1) {
        let s = strip(run);
        if s != base || *digest != runs[0].3 {
            let turn = s.iter().zip(base.iter()).position(|(a, b)| a != b).unwrap_or(s.len().min(base.len()));
            ctx.violation(rep, "C17", "config-changes-behaviour", index,
                format!("tracing={} warnings={} changes the run at turn {}: {:?} vs {:?} (off/off); final state equal: {}",
                    tracing, warnings, turn + 1, s.get(turn), base.get(turn), *digest == runs[0].3),
                json!({"program": exec::program_json(&g.prog), "replies": g.replies, "via_command": via_command}));
            return;
        }
        rep.count("config_pairs_equal");
    }
    // (b)+(c) against the model, all four filters
    for (tracing, warnings, run, _) in &runs {
        if let Err((i, why)) = compare_turns(run, &model, CmpOpts { tracing: *tracing, warnings: *warnings }) {
            if crate::cmp::compare_flat(run, &model, CmpOpts { tracing: *tracing, warnings: *warnings }).is_ok() {
                rep.count("tolerated.turn_boundaries_differ_from_model");
                continue;
            }
            let sig = if why.contains("Warning") { "warning-sequence" } else if why.contains("Trace") { "trace-sequence" } else { "turn-sequence" };
            ctx.violation(rep, "C17", sig, index,
                format!("tracing={} warnings={}: {}", tracing, warnings, why),
                json!({"program": exec::program_json(&g.prog), "replies": g.replies, "turn": i + 1, "via_command": via_command}));
            return;
        }
    }
    // collapsed trace == lines execution passes through
    let full = &runs[3].2;
    let mut collapsed: Vec<u64> = vec![];
    for t in &full.turns {
        for o in &t.outs {
            if let Out::Trace(l) = o {
                if collapsed.last() != Some(l) {
                    collapsed.push(*l);
                }
            }
        }
    }
    if !model.capped && collapsed != model.lines_visited && collapsed != model.lines_visited_without_separator_only_visits {
        ctx.violation(rep, "C17", "trace-lines", index,
            format!("collapsed trace {:?} != lines visited by the model {:?}", collapsed, model.lines_visited),
            json!({"program": exec::program_json(&g.prog), "replies": g.replies}));
        return;
    }
    let warnings: u64 = model.turns.iter().flat_map(|t| t.events.iter()).filter(|e| matches!(e, Ev::Warning(..))).count() as u64;
    let array_warnings: u64 = model.turns.iter().flat_map(|t| t.events.iter()).filter(|e| matches!(e, Ev::Warning("array", ..))).count() as u64;
    rep.add("warnings_compared", warnings);
    rep.add("array_warnings_compared", array_warnings);
    rep.add("trace_records_compared", full.turns.iter().map(|t| t.outs.iter().filter(|o| matches!(o, Out::Trace(_))).count() as u64).sum());
    rep.add("turns_compared", (model.turns.len() * 4) as u64);
    if via_command {
        rep.count("configured_via_TRACE_command");
    }
    if warnings >= 1 && collapsed.len() >= 3 {
        rep.nontrivial(hash_str(&g.prog.text()));
    }
    if rep.want_sample() && index % 811 == 0 {
        rep.sample(json!({"program": exec::program_json(&g.prog), "replies": g.replies, "collapsed_trace": collapsed,
            "warnings": model.turns.iter().flat_map(|t| t.events.iter()).filter_map(|e| if let Ev::Warning(k,n,l) = e { Some(json!([k,n,l])) } else { None }).collect::<Vec<_>>()}));
    }
}

fn finalize(_tier: Tier, rep: &mut Report) -> Finalize {
    Finalize {
        rule: "A case is one G-prog program (with INPUT, unassigned variables and not-yet-existing arrays) executed four times on real interpreters (tracing x warnings; tracing set through the field or through NOTRACE/TRACE commands), each run compared turn by turn with M-prog filtered to the enabled record kinds, and the three non-default runs compared with the off/off run after deleting Trace/Warning records (outputs, states, results, reply points, final variables and arrays). \
               Non-trivial: the program produces >= 1 warning and passes through >= 3 line changes. Distinct by hash of the program text.".into(),
        floors: vec![
            ("config_pairs_equal".into(), 30_000),
            ("warnings_compared".into(), 20_000),
            ("array_warnings_compared".into(), 1_000),
            ("trace_records_compared".into(), 200_000),
            ("configured_via_TRACE_command".into(), 3_000),
            ("distinct_nontrivial".into(), 3_000),
            ("switch.configuration_actually_changed".into(), 5_000),
        ],
        assumptions: vec!["warning wording is not compared: kind (variable/array), quoted name and line are".into()],
        exhaustive: false,
        extras: json!({}),
    }
}
