//! C10 — RUN starts from a clean slate regardless of session history.
//!
//! Metamorphic + snapshot oracle: interpreter A lives through a history H, interpreter B is fresh and
//! receives only H's numbered-line entries (same order) and A's option flags. Both are seeded identically
//! and RUN with the same reply script: per turn identical outputs, results, states and snapshots.

use crate::drive::{flush_trips, Op, Session};
use crate::gen::hist::{self, HistOp};
use crate::report::Report;
use crate::runner::{Check, Ctx, Finalize, Tier, Workload};
use crate::util::hash_str;
use abasic_core::verif_hooks::Snapshot;
use abasic_core::InterpreterState;
use serde_json::json;

pub fn check() -> Check {
    Check { id: "C10", plan, run_case, finalize }
}

fn plan(tier: Tier) -> Vec<Workload> {
    vec![Workload::new("histories", tier.pick(100_000, 2_000_000))]
}

fn runtime_view(s: &Snapshot) -> String {
    format!(
        "state={:?} loc={:?} bp={:?} stack={:?} loops={:?} fns={:?} data={:?} vars={:?} arrays={:?} rng={} pending={:?} lines={:?}",
        s.state, s.location, s.breakpoint, s.stack, s.loops, s.functions, s.data_cursor, s.variables, s.arrays, s.rng_state,
        s.pending_input, s.map_lines
    )
}

fn run_case(ctx: &Ctx, index: u64, rep: &mut Report) {
    let mut rng = ctx.rng(index);
    let len = 3 + rng.usize(14);
    let (ops, hg) = hist::generate(&mut rng, len, false);
    let mut a = Session::new();
    // option flags are host-side fields: they survive RUN by design (B gets the same flags), but what the
    // warning / trace machinery remembers about earlier runs must not
    a.it.enable_warnings = rng.chance(1, 2);
    let mut reply_idx = 0usize;
    let mut history_json = vec![];
    // what kind of leftovers does the history leave behind?
    let mut feats: std::collections::BTreeSet<&'static str> = Default::default();
    for op in &ops {
        let before_state = a.state();
        let n_before = a.log.len();
        hist::apply(&mut a, op, &hg.replies, &mut reply_idx);
        if a.poisoned {
            break;
        }
        for rec in &a.log[n_before..] {
            if let crate::drive::Res::Err(_) = rec.res {
                feats.insert("failed-call");
            }
        }
        match op {
            HistOp::Break if before_state != InterpreterState::Idle => {
                feats.insert("break");
            }
            HistOp::ReplyThenBreak(_) if before_state == InterpreterState::AwaitingInput => {
                feats.insert("unconsumed-reply");
            }
            _ => {}
        }
        history_json.push(format!("{:?}", op));
    }
    if a.poisoned {
        flush_trips(ctx, rep, index, &a, || json!({"history": history_json}));
        return;
    }
    a.settle();
    let s = a.snapshot();
    if !s.variables.is_empty() {
        feats.insert("variables-set");
    }
    if !s.arrays.is_empty() {
        feats.insert("arrays-exist");
    }
    if !s.loops.is_empty() {
        feats.insert("open-FOR");
    }
    if !s.stack.is_empty() {
        feats.insert("unreturned-GOSUB");
    }
    if s.data_cursor.as_ref().map(|d| d.1 > 0 || d.2 > 0).unwrap_or(false) {
        feats.insert("partial-READ");
    }
    if s.breakpoint.is_some() {
        feats.insert("pending-breakpoint");
    }
    if s.pending_input.is_some() {
        feats.insert("unconsumed-reply-at-RUN");
    }
    if !s.functions.is_empty() {
        feats.insert("functions-defined");
    }
    // B: fresh, only the numbered-line entries A accepted or rejected while idle, in order.
    // NEW replaces the interpreter: lines entered before it are gone from A, so B restarts too.
    let mut b = Session::new();
    b.check_invariants = false;
    for rec in &a.log {
        match &rec.op {
            Op::Line(l) => {
                let numbered = abasic_core::verif_hooks::parse_line_number(l).is_some();
                if numbered {
                    b.call(Op::Line(l.clone()));
                }
            }
            Op::Replace => {
                b = Session::new();
                b.check_invariants = false;
            }
            _ => {}
        }
    }
    b.check_invariants = true;
    b.it.enable_tracing = a.it.enable_tracing;
    b.it.enable_warnings = a.it.enable_warnings;
    let seed = rng.next_u64() >> rng.below(40);
    a.call(Op::Randomize(seed));
    b.call(Op::Randomize(seed));
    let mut op = Op::Line("RUN".into());
    let mut turns = 0u64;
    let mut printed_something = false;
    let mut ridx = 0usize;
    let case = |a: &Session| json!({"history": history_json, "leftovers": feats.iter().collect::<Vec<_>>(), "seed": seed, "program_at_run": a.snapshot().map_lines});
    loop {
        let ra = a.call(op.clone()).clone();
        let rb = b.call(op.clone()).clone();
        turns += 1;
        if ra.outs.iter().any(|o| matches!(o, crate::drive::Out::Print(_))) {
            printed_something = true;
        }
        let same_call = ra.outs == rb.outs && ra.res.outcome() == rb.res.outcome() && ra.state == rb.state;
        let (sa, sb) = (a.last_snapshot.clone(), b.last_snapshot.clone());
        let same_state = match (&sa, &sb) {
            (Some(x), Some(y)) => runtime_view(x) == runtime_view(y),
            _ => a.poisoned == b.poisoned,
        };
        if !same_call || !same_state {
            let why = if !same_call {
                format!("turn {} of RUN: after the history {:?} / {:?} / {:?}; fresh interpreter {:?} / {:?} / {:?}",
                    turns, ra.outs, ra.res.to_json(), ra.state, rb.outs, rb.res.to_json(), rb.state)
            } else {
                format!("turn {} of RUN: runtime state differs:\n  after history: {}\n  fresh:         {}", turns,
                    sa.as_ref().map(runtime_view).unwrap_or_default(), sb.as_ref().map(runtime_view).unwrap_or_default())
            };
            let sig = if feats.contains("unconsumed-reply-at-RUN") { "leftover-reply" } else { "history-leaks-into-run" };
            ctx.violation(rep, "C10", sig, index, why, case(&a));
            return;
        }
        if a.poisoned || !ra.res.is_ok() || turns >= 1500 {
            break;
        }
        match a.state() {
            InterpreterState::Running => op = Op::Cont,
            InterpreterState::AwaitingInput => {
                let t = crate::exec::reply_at(&hg.replies, ridx);
                ridx += 1;
                a.call(Op::Input(t.clone()));
                b.call(Op::Input(t));
                op = Op::Cont;
            }
            _ => break,
        }
    }
    flush_trips(ctx, rep, index, &a, || json!({"history": history_json}));
    flush_trips(ctx, rep, index, &b, || json!({"history": history_json, "side": "fresh"}));
    rep.add("turns_compared", turns);
    for f in &feats {
        rep.count(&format!("leftover.{}", f));
    }
    let leftovers = feats.iter().filter(|f| **f != "functions-defined").count();
    if leftovers >= 2 && printed_something {
        rep.nontrivial(hash_str(&format!("{:?}", history_json)));
    }
    if rep.want_sample() && index % 1499 == 0 {
        rep.sample(json!({"history": history_json, "leftovers_before_final_RUN": feats.iter().collect::<Vec<_>>(), "turns_of_final_RUN": turns}));
    }
}

fn finalize(_tier: Tier, rep: &mut Report) -> Finalize {
    Finalize {
        rule: "A case is one session history (a generated program entered in order or shuffled, RUNs driven for k turns, breaks incl. one between a reply and the next turn, immediate assignments / DIM / FOR / GOSUB / GOTO / READ / RESTORE / CONT / TRACE, edits) followed by randomize(s) + RUN on the interpreter that lived through it and on a fresh interpreter that only received the numbered lines; every turn of the two RUNs is compared (outputs, result, state, full runtime snapshot incl. rng and pending reply). \
               Non-trivial: the history left at least two kinds of leftovers (failed call, break, variables, arrays, open FOR, un-returned GOSUB, partial READ, pending breakpoint, unconsumed reply) and the final RUN printed something. Distinct by hash of the history.".into(),
        floors: vec![
            ("turns_compared".into(), 200_000),
            ("leftover.open-FOR".into(), 200),
            ("leftover.unreturned-GOSUB".into(), 200),
            ("leftover.partial-READ".into(), 200),
            ("leftover.pending-breakpoint".into(), 1_000),
            ("leftover.unconsumed-reply-at-RUN".into(), 30),
            ("distinct_nontrivial".into(), 3_000),
        ],
        assumptions: vec!["the string pool, queued-output count and hook work counters are not part of the comparison".into()],
        exhaustive: false,
        extras: json!({}),
    }
}
