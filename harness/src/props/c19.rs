//! C19 — the Web adapter is a faithful, trap-free wrapper under the page's protocol.
//!
//! M-page: a transliteration of abasic-web/ts/main.ts (loader, start, submitUserInput, breakAtCurrentLocation,
//! handleCurrentState, timers) drives the real JsInterpreter (native build of the adapter); every adapter call
//! runs under catch_unwind (a panic is a trap) and is mirrored on a shadow abasic_core::Interpreter whose
//! state, output records and error text must match what the adapter exposes.

use crate::gen::hist;
use crate::gen::prog::{self, GenOpts};
use crate::gen::{text, toks};
use crate::report::Report;
use crate::runner::{Check, Ctx, Finalize, Tier, Workload};
use crate::util::{hash_str, Rng};
use abasic_core::{Interpreter, InterpreterOutput, InterpreterState};
use abasic_web::JsInterpreter;
use serde_json::json;

pub fn check() -> Check {
    Check { id: "C19", plan, run_case, finalize }
}

fn plan(tier: Tier) -> Vec<Workload> {
    vec![
        Workload::new("events", tier.pick(60_000, 1_500_000)),
        // the real main.ts executed under node against the real adapter (batches of scenarios per node process)
        Workload::new("page_js", tier.pick(96, 2_400)),
    ]
}

#[derive(Clone, Debug)]
enum Event {
    Load(String),
    Start,
    Submit(String),
    Break,
    Tick,
    /// (page_js only) a line submitted while the program file is still being downloaded
    EarlySubmit(String),
}

/// facts read from main.ts so that the model follows the source
#[derive(Clone, Debug)]
pub struct PageFacts {
    /// does the start-up loader stop at / check for an error before the next submission?
    pub loader_checks_error: bool,
    /// the loader skips lines that do not start with a digit
    pub loader_filters_non_digit: bool,
}

pub fn read_page_facts() -> Result<PageFacts, String> {
    let src = std::fs::read_to_string("/repo/abasic-web/ts/main.ts").map_err(|e| format!("cannot read main.ts: {}", e))?;
    let start = src.find("loadAndRunSourceCode(sourceCode").ok_or("loadAndRunSourceCode not found in main.ts")?;
    let rest = &src[start..];
    let end = rest.find("\n  start()").ok_or("end of loadAndRunSourceCode not found in main.ts")?;
    let body = &rest[..end];
    if !body.contains("this.impl.start_evaluating(line)") || !body.contains("this.impl.start_evaluating(\"RUN\")") {
        return Err("loader shape in main.ts is not the one the model transliterates".into());
    }
    let loader_filters_non_digit = body.contains("/^[0-9]/.test(line)");
    if !loader_filters_non_digit {
        return Err("non-digit line filter not found in main.ts".into());
    }
    // other protocol facts the transliteration relies on
    for needle in ["canProcessUserInput()", "state === JsInterpreterState.Idle", "this.impl.provide_input(input)",
                   "this.impl.break_at_current_location()", "this.impl.take_latest_error()", "this.impl.continue_evaluating()",
                   "window.setTimeout(this.handleCurrentState"] {
        if !src.contains(needle) {
            return Err(format!("main.ts no longer contains `{}`: the page model must be revisited", needle));
        }
    }
    Ok(PageFacts { loader_checks_error: body.contains("Errored"), loader_filters_non_digit })
}

struct Page {
    js: JsInterpreter,
    shadow: Interpreter,
    /// error of the shadow's last evaluating call that the page has not taken yet: (text of start-call form, text of continue-call form)
    shadow_err: Option<(String, String)>,
    fully_interactive: bool,
    input_enabled: bool,
    timers: u32,
    calls: u64,
    problems: Vec<(String, String)>,
    stats: Stats,
    facts: PageFacts,
}

#[derive(Default)]
struct Stats {
    errors_shown: u64,
    outputs: u64,
    ticks_running: u64,
    breaks: u64,
    news: u64,
    loads: u64,
    load_lines: u64,
    load_errors: u64,
}

fn out_type(o: &InterpreterOutput) -> u32 {
    match o {
        InterpreterOutput::Print(_) => 0,
        InterpreterOutput::Break(_) => 1,
        InterpreterOutput::Warning(_, _) => 2,
        InterpreterOutput::Trace(_) => 3,
        InterpreterOutput::ExtraIgnored => 4,
        InterpreterOutput::Reenter => 5,
    }
}

impl Page {
    fn new(facts: PageFacts) -> Page {
        Page {
            js: JsInterpreter::default(),
            shadow: Interpreter::default(),
            shadow_err: None,
            fully_interactive: true,
            input_enabled: true,
            timers: 0,
            calls: 0,
            problems: vec![],
            stats: Stats::default(),
            facts,
        }
    }

    fn problem(&mut self, sig: &str, msg: String) {
        if self.problems.len() < 4 {
            self.problems.push((sig.to_string(), msg));
        }
    }

    fn dead(&self) -> bool {
        !self.problems.is_empty()
    }

    /// adapter call under catch_unwind
    fn guard<T>(&mut self, what: &str, f: impl FnOnce(&mut JsInterpreter) -> T) -> Option<T> {
        self.calls += 1;
        let js = &mut self.js;
        match crate::util::catch(move || f(js)) {
            Ok(v) => Some(v),
            Err(m) => {
                self.problem(&format!("trap:{}", what), format!("JsInterpreter::{} panicked (a trap on the page): {}", what, m));
                None
            }
        }
    }

    fn shadow_replace_if_new(&mut self) {
        if self.shadow.get_state() == InterpreterState::NewInterpreterRequested {
            self.shadow = Interpreter::default();
            self.stats.news += 1;
        }
    }

    /// 0 Idle, 1 Running, 2 AwaitingInput, 3 Errored
    fn get_state(&mut self) -> Option<u32> {
        let got = self.guard("get_state", |js| js.get_state() as u32)?;
        let want = if self.shadow_err.is_some() {
            3
        } else {
            match self.shadow.get_state() {
                InterpreterState::Idle => 0,
                InterpreterState::Running => 1,
                InterpreterState::AwaitingInput => 2,
                InterpreterState::NewInterpreterRequested => 99,
            }
        };
        if got != want {
            self.problem("state-mismatch", format!("adapter reports state {} but the core interpreter driven by the same calls is in state {} (0 Idle, 1 Running, 2 AwaitingInput, 3 Errored)", got, want));
            return None;
        }
        Some(got)
    }

    fn start_evaluating(&mut self, line: &str) {
        let l = line.to_string();
        if self.guard("start_evaluating", move |js| js.start_evaluating(l)).is_none() {
            return;
        }
        match self.shadow.start_evaluating(line) {
            Ok(()) => self.shadow_replace_if_new(),
            Err(e) => {
                let mut lines = vec![e.to_string()];
                lines.extend(e.get_line_with_pointer_caret(&self.shadow, Some(line)));
                self.shadow_err = Some((lines.join("\n"), e.to_string()));
            }
        }
    }

    fn continue_evaluating(&mut self) {
        if self.guard("continue_evaluating", |js| js.continue_evaluating()).is_none() {
            return;
        }
        match self.shadow.continue_evaluating() {
            Ok(()) => self.shadow_replace_if_new(),
            Err(e) => {
                let mut lines = vec![e.to_string()];
                lines.extend(e.get_line_with_pointer_caret::<&str>(&self.shadow, None));
                self.shadow_err = Some((lines.join("\n"), e.to_string()));
            }
        }
    }

    fn show_output(&mut self) {
        let Some(outs) = self.guard("take_latest_output", |js| {
            js.take_latest_output().into_iter().map(|o| (o.output_type as u32, o.into_string())).collect::<Vec<_>>()
        }) else {
            return;
        };
        let want: Vec<(u32, String)> = self.shadow.take_output().iter().map(|o| (out_type(o), o.to_string())).collect();
        self.stats.outputs += outs.len() as u64;
        // the INTERNALS dump prints hash containers in iteration order, which differs between two
        // interpreter objects: compare its record type only
        let norm = |v: &Vec<(u32, String)>| -> Vec<(u32, String)> {
            v.iter().map(|(t, s)| if s.starts_with("Interpreter {") { (*t, "<INTERNALS dump>".to_string()) } else { (*t, s.clone()) }).collect()
        };
        if norm(&outs) != norm(&want) {
            self.problem("output-mismatch", format!("adapter output records {:?} but the core interpreter produced {:?}", outs, want));
        }
    }

    fn handle_current_state(&mut self) {
        let mut guard = 0;
        loop {
            guard += 1;
            if self.dead() || guard > 8 {
                return;
            }
            self.show_output();
            let Some(state) = self.get_state() else { return };
            match state {
                0 => {
                    if !self.fully_interactive {
                        self.input_enabled = false;
                    }
                    return;
                }
                2 => return,
                3 => {
                    let Some(err) = self.guard("take_latest_error", |js| js.take_latest_error()) else { return };
                    let want = self.shadow_err.take();
                    match (err, want) {
                        (Some(got), Some((with_caret, plain))) => {
                            // from start_evaluating the text is error + line + caret; from continue_evaluating the adapter
                            // exposes the error text only (accepted with or without the caret lines)
                            if got != with_caret && got != plain {
                                self.problem("error-text-mismatch", format!("adapter error text {:?}; core gives {:?}", got, with_caret));
                                return;
                            }
                            self.stats.errors_shown += 1;
                        }
                        (None, _) => {
                            self.problem("error-undefined", "state Errored but take_latest_error() returned nothing (the page throws)".into());
                            return;
                        }
                        (Some(got), None) => {
                            self.problem("spurious-error", format!("adapter reports error {:?} the core did not raise", got));
                            return;
                        }
                    }
                    // recursion: handleCurrentState()
                }
                1 => {
                    self.continue_evaluating();
                    self.stats.ticks_running += 1;
                    self.timers += 1;
                    return;
                }
                _ => return,
            }
        }
    }

    fn apply(&mut self, ev: &Event) {
        if self.dead() {
            return;
        }
        match ev {
            Event::EarlySubmit(_) => {} // the transliterated page registers its handlers after the download
            Event::Load(text) => {
                // new Interpreter(JsInterpreter.new()): randomize(Date.now())
                self.load(text);
                self.start();
            }
            Event::Start => self.start(),
            Event::Submit(input) => {
                if !self.input_enabled {
                    return;
                }
                // canBreak() && input === "💥"
                let Some(state) = self.get_state() else { return };
                if state != 0 && input == "💥" {
                    self.break_at_current_location();
                    return;
                }
                // canProcessUserInput()
                let Some(state) = self.get_state() else { return };
                if !(state == 0 || state == 2) {
                    return;
                }
                // submitUserInput
                let Some(state) = self.get_state() else { return };
                if state == 0 {
                    self.start_evaluating(input);
                } else if state == 2 {
                    let t = input.clone();
                    if self.guard("provide_input", move |js| js.provide_input(t)).is_none() {
                        return;
                    }
                    self.shadow.provide_input(input.clone());
                }
                self.handle_current_state();
            }
            Event::Break => {
                if !self.input_enabled {
                    return;
                }
                self.break_at_current_location();
            }
            Event::Tick => {
                if self.timers > 0 {
                    self.timers -= 1;
                    self.handle_current_state();
                }
            }
        }
    }

    fn load(&mut self, source: &str) {
        self.stats.loads += 1;
        self.fully_interactive = false;
        for line in source.split('\n') {
            if self.dead() {
                return;
            }
            // `!line.trim()` and `/^[0-9]/`: both skip unless the first character is an ASCII digit
            if line.trim().is_empty() {
                continue;
            }
            if !line.chars().next().map(|c| c.is_ascii_digit()).unwrap_or(false) {
                continue;
            }
            self.stats.load_lines += 1;
            self.start_evaluating(line);
            if self.shadow_err.is_some() {
                self.stats.load_errors += 1;
            }
            if self.facts.loader_checks_error {
                let Some(state) = self.get_state() else { return };
                if state == 3 {
                    return;
                }
            }
        }
        self.start_evaluating("RUN");
    }

    fn start(&mut self) {
        self.handle_current_state();
    }

    fn break_at_current_location(&mut self) {
        let Some(state) = self.get_state() else { return };
        if state == 2 || state == 1 {
            self.fully_interactive = true;
            if self.guard("break_at_current_location", |js| js.break_at_current_location()).is_none() {
                return;
            }
            self.shadow.break_at_current_location();
            self.stats.breaks += 1;
            self.handle_current_state();
        }
    }
}

impl Page {
    /// One adapter call requested by the real page script running under node. Ok(value) or Err(trap message).
    fn rpc(&mut self, call: &str, args: &[serde_json::Value]) -> Result<serde_json::Value, String> {
        let arg0 = args.first().and_then(|v| v.as_str()).unwrap_or("").to_string();
        let before = self.problems.len();
        let trap_of = |page: &Page, before: usize| -> Option<String> {
            page.problems[before..].iter().find(|(sig, _)| sig.starts_with("trap:")).map(|(_, m)| m.clone())
        };
        let value = match call {
            "new" => {
                match self.guard("new", |js| { *js = JsInterpreter::new(); }) {
                    Some(()) => { self.shadow = Interpreter::default(); self.shadow_err = None; }
                    None => {}
                }
                serde_json::Value::Null
            }
            "randomize" => {
                let seed: u64 = arg0.parse().unwrap_or(0);
                if self.guard("randomize", move |js| js.randomize(seed)).is_some() {
                    self.shadow.randomize(seed);
                }
                serde_json::Value::Null
            }
            "start_evaluating" => {
                // the shadow is only driven when the call is legal for the core (the real adapter panics otherwise)
                if self.shadow_err.is_none() && self.shadow.get_state() == InterpreterState::Idle {
                    self.start_evaluating(&arg0);
                } else {
                    let l = arg0.clone();
                    self.guard("start_evaluating", move |js| js.start_evaluating(l));
                }
                serde_json::Value::Null
            }
            "continue_evaluating" => {
                if self.shadow_err.is_none() && self.shadow.get_state() == InterpreterState::Running {
                    self.continue_evaluating();
                } else {
                    self.guard("continue_evaluating", |js| js.continue_evaluating());
                }
                serde_json::Value::Null
            }
            "provide_input" => {
                let t = arg0.clone();
                if self.guard("provide_input", move |js| js.provide_input(t)).is_some() {
                    if self.shadow.get_state() == InterpreterState::AwaitingInput {
                        self.shadow.provide_input(arg0.clone());
                    } else {
                        self.problem("shadow-diverged", "provide_input accepted by the adapter while the core interpreter is not awaiting input".into());
                    }
                }
                serde_json::Value::Null
            }
            "break_at_current_location" => {
                if self.guard("break_at_current_location", |js| js.break_at_current_location()).is_some() {
                    self.shadow.break_at_current_location();
                    self.stats.breaks += 1;
                }
                serde_json::Value::Null
            }
            "get_state" => {
                // compare, but hand the adapter's own answer to the page
                let got = self.guard("get_state", |js| js.get_state() as u32);
                if let Some(g) = got {
                    let want = if self.shadow_err.is_some() { 3 } else {
                        match self.shadow.get_state() { InterpreterState::Idle => 0, InterpreterState::Running => 1, InterpreterState::AwaitingInput => 2, InterpreterState::NewInterpreterRequested => 99 }
                    };
                    if g != want {
                        self.problem("state-mismatch", format!("adapter reports state {} but the core interpreter driven by the same calls is in state {}", g, want));
                    }
                    json!(g)
                } else {
                    serde_json::Value::Null
                }
            }
            "take_latest_output" => {
                let outs = self.guard("take_latest_output", |js| {
                    js.take_latest_output().into_iter().map(|o| (o.output_type as u32, o.into_string())).collect::<Vec<_>>()
                });
                match outs {
                    Some(outs) => {
                        let want: Vec<(u32, String)> = self.shadow.take_output().iter().map(|o| (out_type(o), o.to_string())).collect();
                        self.stats.outputs += outs.len() as u64;
                        let norm = |v: &Vec<(u32, String)>| -> Vec<(u32, String)> {
                            v.iter().map(|(t, s)| if s.starts_with("Interpreter {") { (*t, "<INTERNALS dump>".to_string()) } else { (*t, s.clone()) }).collect()
                        };
                        if norm(&outs) != norm(&want) {
                            self.problem("output-mismatch", format!("adapter output records {:?} but the core interpreter produced {:?}", outs, want));
                        }
                        json!(outs.iter().map(|(t, s)| json!([t, s])).collect::<Vec<_>>())
                    }
                    None => serde_json::Value::Null,
                }
            }
            "take_latest_error" => {
                let err = self.guard("take_latest_error", |js| js.take_latest_error());
                match err {
                    Some(got) => {
                        let want = self.shadow_err.take();
                        match (&got, want) {
                            (Some(g), Some((with_caret, plain))) => {
                                if *g != with_caret && *g != plain {
                                    self.problem("error-text-mismatch", format!("adapter error text {:?}; core gives {:?}", g, with_caret));
                                }
                                self.stats.errors_shown += 1;
                            }
                            (None, Some(_)) => self.problem("error-undefined", "the core raised an error but take_latest_error() returned nothing".into()),
                            (Some(g), None) => self.problem("spurious-error", format!("adapter reports error {:?} the core did not raise", g)),
                            (None, None) => {}
                        }
                        match got { Some(g) => json!(g), None => serde_json::Value::Null }
                    }
                    None => serde_json::Value::Null,
                }
            }
            other => return Err(format!("unknown adapter method {}", other)),
        };
        if let Some(t) = trap_of(self, before) {
            return Err(t);
        }
        Ok(value)
    }
}

/// Run a batch of scenarios through node; returns per scenario (problems, log) or Err(reason) when node cannot be used.
fn run_page_js(scenarios: &[(u64, Option<String>, Vec<Event>)], facts: &PageFacts) -> Result<Vec<(Vec<(String, String)>, serde_json::Value, Stats, u64)>, String> {
    use std::io::{BufRead, BufReader, Write};
    let dir = format!("{}/target/tmp", crate::runner::VERIF_DIR);
    let _ = std::fs::create_dir_all(&dir);
    let file = format!("{}/c19-scenarios-{}-{}.json", dir, std::process::id(), scenarios.first().map(|s| s.0).unwrap_or(0));
    let js: Vec<serde_json::Value> = scenarios.iter().enumerate().map(|(k, (seed, program, events))| {
        json!({"id": k, "seed": seed.to_string(), "program": program,
            "early": events.iter().filter_map(|e| match e { Event::EarlySubmit(s) => Some(json!({"t": "submit", "text": s})), _ => None }).collect::<Vec<_>>(),
            "events": events.iter().filter_map(|e| match e {
            Event::Tick => Some(json!({"t": "tick"})),
            Event::Break => Some(json!({"t": "break"})),
            Event::Submit(s) => Some(json!({"t": "submit", "text": s})),
            _ => None,
        }).collect::<Vec<_>>()})
    }).collect();
    std::fs::write(&file, serde_json::to_string(&js).unwrap_or_default()).map_err(|e| format!("cannot write scenario file: {}", e))?;
    let mut child = std::process::Command::new("node")
        .arg(format!("{}/harness/js/page_driver.js", crate::runner::VERIF_DIR))
        .arg(&file)
        .arg("/repo/abasic-web/ts/main.ts")
        .stdin(std::process::Stdio::piped())
        .stdout(std::process::Stdio::piped())
        .stderr(std::process::Stdio::piped())
        .spawn()
        .map_err(|e| format!("cannot start node: {}", e))?;
    let mut stdin = child.stdin.take().unwrap();
    let stdout = child.stdout.take().unwrap();
    let mut results = vec![];
    let mut page = Page::new(facts.clone());
    let mut done = false;
    let started = std::time::Instant::now();
    for line in BufReader::new(stdout).lines() {
        let Ok(line) = line else { break };
        let Ok(v) = serde_json::from_str::<serde_json::Value>(&line) else { continue };
        let call = v.get("call").and_then(|c| c.as_str()).unwrap_or("");
        let args: Vec<serde_json::Value> = v.get("args").and_then(|a| a.as_array()).cloned().unwrap_or_default();
        let reply = match call {
            "__begin" => {
                page = Page::new(facts.clone());
                json!({"ok": null})
            }
            "__end" => {
                let log = args.first().cloned().unwrap_or(serde_json::Value::Null);
                let p = std::mem::replace(&mut page, Page::new(facts.clone()));
                results.push((p.problems, log, p.stats, p.calls));
                json!({"ok": null})
            }
            "__done" => {
                done = true;
                break;
            }
            other => match page.rpc(other, &args) {
                Ok(val) => json!({"ok": val}),
                Err(trap) => json!({"trap": trap}),
            },
        };
        if stdin.write_all(format!("{}\n", reply).as_bytes()).is_err() {
            break;
        }
        let _ = stdin.flush();
        if started.elapsed().as_secs() > 600 {
            break;
        }
    }
    drop(stdin);
    let out = child.wait_with_output();
    let _ = std::fs::remove_file(&file);
    if !done {
        let stderr = out.map(|o| String::from_utf8_lossy(&o.stderr).to_string()).unwrap_or_default();
        return Err(format!("node driver did not finish ({} of {} scenarios): {}", results.len(), scenarios.len(), crate::util::truncate(stderr.trim(), 300)));
    }
    Ok(results)
}

fn program_text(rng: &mut Rng) -> String {
    let g = prog::generate(rng, &GenOpts { inputs: true, stops: true, ..GenOpts::default() });
    let mut lines = g.prog.text_lines();
    // hostile additions: untokenizable / unnumbered / blank / huge-number lines
    let extra = rng.below(4);
    for _ in 0..extra {
        let l = match rng.below(8) {
            0 => format!("{} C% = 1", rng.below(500)),
            1 => format!("{} PRINT \"open", rng.below(500)),
            2 => "REM not numbered".to_string(),
            3 => "".to_string(),
            4 => format!("{} PRINT 1", text::boundary_numeral(rng)),
            5 => format!("{} {}", rng.below(500), toks::join(&toks::random_pieces(rng, 6))),
            6 => text::random_line(rng, 8).replace('\n', " "),
            _ => format!("{} é", rng.below(500)),
        };
        let at = rng.usize(lines.len() + 1);
        lines.insert(at, l);
    }
    lines.join(if rng.chance(1, 8) { "\r\n" } else { "\n" })
}

/// type in a program of 250-420 lines, LIST it, run it for a while, NEW: calls that produce hundreds of records
fn long_listing(rng: &mut Rng, events: &mut Vec<Event>) {
    let n = 250 + rng.usize(170);
    for k in 0..n {
        events.push(Event::Submit(format!("{} PRINT {}", k + 1, k)));
    }
    events.push(Event::Submit("LIST".into()));
    events.push(Event::Tick);
    events.push(Event::Submit("PRINT \"after the listing\"".into()));
    events.push(Event::Submit("RUN".into()));
    for _ in 0..rng.usize(40) {
        events.push(Event::Tick);
    }
    events.push(Event::Break);
    events.push(Event::Submit("NEW".into()));
    events.push(Event::Submit("LIST".into()));
    events.push(Event::Submit("PRINT 1".into()));
}

fn submit_text(rng: &mut Rng, g_lines: &[String]) -> String {
    match rng.below(14) {
        0 => "RUN".into(),
        1 => "CONT".into(),
        2 => "LIST".into(),
        3 => rng.s(&["NEW", "new", "TRACE", "NOTRACE", "STATS"]).to_string(),
        4 => "💥".into(),
        5 | 6 => rng.s(&["1", "7", "x", "", "2,3", "hello", "\"q\"", "5: tail"]).to_string(),
        7 | 8 if !g_lines.is_empty() => rng.pick(g_lines).clone(),
        9 => text::random_line(rng, 10).replace('\n', " "),
        10 => toks::join(&toks::random_pieces(rng, 8)),
        _ => {
            let imm = ["X = 5", "PRINT X; A$", "PRINT 1/0", "GOTO 10", "GOSUB 10", "INPUT Q", "FOR I = 1 TO 3 : PRINT I : NEXT I", "PRINT RND(1)", "DIM Z(3)", "READ A$", "10 PRINT \"edit\"", "10", "20 GOTO 20", "PRINT \"", "RETURN", "STOP", "10 INPUT A : PRINT A : GOTO 10"];
            rng.s(&imm).to_string()
        }
    }
}

fn run_case(ctx: &Ctx, index: u64, rep: &mut Report) {
    let facts = match read_page_facts() {
        Ok(f) => f,
        Err(e) => {
            if ctx.workload == "page_js" {
                // the real script is executed whatever its shape
                PageFacts { loader_checks_error: true, loader_filters_non_digit: true }
            } else {
                // the Rust transliteration no longer mirrors main.ts: it is skipped (the real script still runs
                // under node in the page_js workload, whose floors then carry the check)
                rep.count("events.skipped_main_ts_shape_changed");
                rep.notes.push(format!("transliteration skipped: {}", e));
                return;
            }
        }
    };
    if ctx.workload == "page_js" {
        return run_case_page_js(ctx, index, rep, &facts);
    }
    let mut rng = ctx.rng(index);
    let n = 5 + rng.usize(296);
    let mut events = vec![];
    let g = prog::generate(&mut rng, &GenOpts { inputs: true, stops: true, ..GenOpts::default() });
    let g_lines = g.prog.text_lines();
    let loaded = rng.coin();
    if loaded {
        events.push(Event::Load(program_text(&mut rng)));
    } else {
        events.push(Event::Start);
    }
    if rng.chance(1, 12) {
        long_listing(&mut rng, &mut events);
    }
    for _ in 0..n {
        events.push(match rng.below(10) {
            0..=5 => Event::Tick,
            6 => Event::Break,
            _ => Event::Submit(submit_text(&mut rng, &g_lines)),
        });
    }
    let seed = match rng.below(3) {
        0 => rng.next_u64(),
        1 => u64::MAX - rng.below(5),
        _ => rng.below(1 << 40),
    };
    let mut page = Page::new(facts.clone());
    // constructor: this.impl.randomize(BigInt(Date.now()))
    if page.guard("randomize", move |js| js.randomize(seed)).is_some() {
        page.shadow.randomize(seed);
    }
    let mut applied = 0;
    for ev in &events {
        page.apply(ev);
        applied += 1;
        if page.dead() {
            break;
        }
    }
    let _ = hist::IMMEDIATE_COUNT;
    rep.add("adapter_calls", page.calls);
    rep.add("events", applied);
    rep.add("outputs_compared", page.stats.outputs);
    rep.add("errors_shown", page.stats.errors_shown);
    rep.add("ticks_while_running", page.stats.ticks_running);
    rep.add("breaks", page.stats.breaks);
    rep.add("NEW_replacements", page.stats.news);
    rep.add("loads", page.stats.loads);
    rep.add("load_lines", page.stats.load_lines);
    rep.add("load_lines_with_error", page.stats.load_errors);
    rep.set("loader_checks_error_in_main_ts", &facts.loader_checks_error.to_string());
    let case = || {
        json!({"seed": seed, "events": events.iter().take(applied as usize).map(|e| match e {
            Event::Load(t) => json!({"load": t.split('\n').collect::<Vec<_>>()}),
            Event::Start => json!("start"),
            Event::Submit(s) => json!({"submit": s}),
            Event::Break => json!("break"),
            Event::Tick => json!("tick"),
            Event::EarlySubmit(s) => json!({"submit-during-download": s}),
        }).collect::<Vec<_>>()})
    };
    if let Some((sig, msg)) = page.problems.first().cloned() {
        ctx.violation(rep, "C19", &sig, index, format!("after {} page events: {}", applied, msg), case());
        return;
    }
    let nontrivial = (loaded || page.stats.errors_shown >= 1) && page.stats.ticks_running >= 1 && (page.stats.breaks >= 1 || page.stats.news >= 1);
    if nontrivial {
        rep.nontrivial(hash_str(&format!("{:?}", events)));
    }
    if rep.want_sample() && index % 1999 == 0 {
        rep.sample(case());
    }
}

fn run_case_page_js(ctx: &Ctx, index: u64, rep: &mut Report, facts: &PageFacts) {
    let mut rng = ctx.rng(index);
    let batch = 40;
    let mut scenarios = vec![];
    for _ in 0..batch {
        let g = prog::generate(&mut rng, &GenOpts { inputs: true, stops: true, ..GenOpts::default() });
        let g_lines = g.prog.text_lines();
        let program = if rng.coin() { Some(program_text(&mut rng)) } else { None };
        let n = 5 + rng.usize(150);
        let mut events = vec![];
        if program.is_some() && rng.chance(1, 3) {
            // the user types while the program file is still being fetched
            for _ in 0..1 + rng.usize(2) {
                events.push(Event::EarlySubmit(rng.s(&["INPUT Z", "FOR I = 1 TO 1000 : NEXT I", "PRINT 1", "10 X = 1", "RUN", "PRINT 1/0", "GOTO 10"]).to_string()));
            }
        }
        if rng.chance(1, 12) {
            long_listing(&mut rng, &mut events);
        }
        for _ in 0..n {
            events.push(match rng.below(10) {
                0..=5 => Event::Tick,
                6 => Event::Break,
                _ => Event::Submit(submit_text(&mut rng, &g_lines).replace('\n', " ")),
            });
        }
        let seed = match rng.below(3) { 0 => rng.next_u64(), 1 => u64::MAX - rng.below(5), _ => rng.below(1 << 40) };
        scenarios.push((seed, program, events));
    }
    match run_page_js(&scenarios, facts) {
        Err(why) => rep.inconclusive.push(format!("the real page script could not be executed under node: {}", why)),
        Ok(results) => {
            for (k, (problems, log, stats, calls)) in results.into_iter().enumerate() {
                rep.count("page_js.scenarios");
                rep.evaluations += 1;
                rep.add("page_js.adapter_calls", calls);
                rep.add("page_js.outputs_compared", stats.outputs);
                rep.add("page_js.errors_shown", stats.errors_shown);
                rep.add("page_js.breaks", stats.breaks);
                rep.add("page_js.events_applied", log.get("events_applied").and_then(|x| x.as_u64()).unwrap_or(0));
                let (seed, program, events) = &scenarios[k];
                let case = || json!({"seed": seed.to_string(), "program": program.as_ref().map(|p| p.split('\n').map(|s| s.to_string()).collect::<Vec<_>>()),
                    "events": events.iter().take(200).map(|e| format!("{:?}", e)).collect::<Vec<_>>(), "page_log": log});
                if let Some(u) = log.get("unsupported").and_then(|x| x.as_str()) {
                    rep.inconclusive.push(format!("main.ts uses syntax the type stripper cannot handle: {}", u));
                    return;
                }
                if let Some((sig, msg)) = problems.first() {
                    ctx.violation(rep, "C19", &format!("page_js:{}", sig), index, format!("real main.ts under node: {}", msg), case());
                    continue;
                }
                if let Some(e) = log.get("exception").and_then(|x| x.as_str()) {
                    ctx.violation(rep, "C19", "page_js:page-exception", index, format!("the page script threw: {}", e), case());
                    continue;
                }
                if let Some(t) = log.get("trap").and_then(|x| x.as_str()) {
                    ctx.violation(rep, "C19", "page_js:trap", index, format!("the adapter trapped: {}", t), case());
                    continue;
                }
                if program.is_some() && stats.outputs > 0 {
                    rep.nontrivial(hash_str(&format!("js{:?}{:?}", program, events)));
                }
            }
        }
    }
}

fn finalize(_tier: Tier, rep: &mut Report) -> Finalize {
    let transliteration_skipped = rep.get("events.skipped_main_ts_shape_changed") > 0;
    let mut fin = finalize_inner(rep);
    if transliteration_skipped {
        fin.floors.retain(|(k, _)| k.starts_with("page_js"));
    }
    fin
}

fn finalize_inner(rep: &mut Report) -> Finalize {
    Finalize {
        rule: "A case is a sequence of 5-300 page events (a program file loaded at start-up or a plain start; submitted texts: program lines, immediate statements, commands RUN/CONT/LIST/NEW/TRACE, replies, the break emoji, arbitrary text; break requests; timer ticks) handled by a transliteration of main.ts (loader, start, submitUserInput, breakAtCurrentLocation, handleCurrentState with its timers and the disabled-input state) against the real JsInterpreter; every adapter call is guarded (a panic is a trap) and mirrored on a shadow core interpreter: state, output records (type and text, in order) and error text must match; NEW must behave like a fresh interpreter. \
               Two facts are read from main.ts at run time (does the loader check for an error between submissions; the non-digit line filter); if the source no longer has the transliterated shape the check is inconclusive. \
               Non-trivial: the sequence has a Load or shows >= 1 error, >= 1 tick while running and >= 1 break or NEW. Distinct by hash of the event list.".into(),
        floors: vec![
            ("adapter_calls".into(), 700_000),
            ("outputs_compared".into(), 200_000),
            ("errors_shown".into(), 20_000),
            ("ticks_while_running".into(), 100_000),
            ("NEW_replacements".into(), 500),
            ("load_lines_with_error".into(), 500),
            ("distinct_nontrivial".into(), 3_000),
            ("page_js.scenarios".into(), 1_000),
            ("page_js.adapter_calls".into(), 100_000),
        ],
        assumptions: vec![
            "page_js executes the real main.ts under node after a regex type-stripper (inconclusive if it stops parsing); ui.ts (DOM plumbing) is mocked; events workload: the TypeScript itself is not executed (no tsc / wasm runtime in the sandbox): M-page is a transliteration tied to main.ts by source patterns".into(),
            "the adapter is the native rlib build of abasic-web (default features off), not the wasm artefact".into(),
        ],
        exhaustive: false,
        extras: json!({}),
    }
}
