//! C02 — expressions evaluate per precedence, associativity and typing.
//!
//! Oracle: M-expr (the expression fold of the reference interpreter) on the same AST; the real
//! interpreter evaluates `PRINT <text>` for the minimal-parentheses and the fully parenthesised
//! spelling of each tree. Equality of printed text, or of the error kind.

use crate::drive::{Op, Out, Res, Session};
use crate::model::ast::*;
use crate::model::prog::{Machine, Val};
use crate::report::Report;
use crate::runner::{Check, Ctx, Finalize, Tier, Workload};
use crate::util::{hash_str, Rng};
use serde_json::json;

pub fn check() -> Check {
    Check { id: "C02", plan, run_case, finalize }
}

const BATCH: u64 = 2048;

fn num_leaves() -> Vec<Expr> {
    vec![
        Expr::Num("0".into()), Expr::Num("1".into()), Expr::Num("2".into()), Expr::Num("3".into()),
        Expr::Num(".5".into()), Expr::Num("10".into()), var("A"), var("U"),
        // a non-zero number far below machine epsilon, and a rounding residue: still "non-zero" and a legal divisor
        Expr::Num(".0000000000000000001".into()),
        Expr::Paren(Box::new(bin(Bin::Sub, bin(Bin::Add, Expr::Num(".1".into()), Expr::Num(".2".into())), Expr::Num(".3".into())))),
        // a literal with 16 significant digits: the nearest double is 1 - 2^-53, not 1
        Expr::Num("0.9999999999999999".into()),
    ]
}
fn str_leaves() -> Vec<Expr> {
    vec![strlit(""), strlit("A"), strlit("B"), var("B$"), var("U$")]
}

/// every leaf under every decoration (68 forms)
fn full_operands() -> Vec<Expr> {
    let mut v = vec![];
    for l in num_leaves() {
        v.push(l.clone());
        v.push(Expr::Un(Un::Minus, Box::new(l.clone())));
        v.push(Expr::Un(Un::Not, Box::new(l.clone())));
        v.push(Expr::Un(Un::Plus, Box::new(l.clone())));
        v.push(Expr::Abs(Box::new(Expr::Un(Un::Minus, Box::new(l.clone())))));
        v.push(Expr::Int(Box::new(bin(Bin::Div, l.clone(), Expr::Num("2".into())))));
    }
    for l in str_leaves() {
        v.push(l.clone());
        v.push(Expr::Un(Un::Not, Box::new(l.clone())));
        v.push(Expr::Un(Un::Minus, Box::new(l.clone())));
        v.push(Expr::Abs(Box::new(l.clone())));
    }
    v
}

/// reduced operand set for the 2- and 3-operator enumerations
fn reduced_operands(n: usize) -> Vec<Expr> {
    let all = vec![
        Expr::Num("0".into()),
        Expr::Num("2".into()),
        Expr::Num("3".into()),
        strlit("A"),
        Expr::Un(Un::Minus, Box::new(Expr::Num("2".into()))),
        Expr::Un(Un::Not, Box::new(Expr::Num("0".into()))),
        strlit(""),
        Expr::Num(".5".into()),
        var("A"),
        strlit("B"),
        Expr::Num("1".into()),
        Expr::Un(Un::Not, Box::new(Expr::Num("3".into()))),
        Expr::Int(Box::new(Expr::Num(".5".into()))),
        var("U$"),
        Expr::Num(".0000000000000000001".into()),
    ];
    all.into_iter().take(n).collect()
}

/// tree shapes with k binary operators, as functions of (ops, operands)
fn build_shape(shape: usize, ops: &[Bin], xs: &[Expr]) -> Expr {
    match (ops.len(), shape) {
        (1, _) => bin(ops[0], xs[0].clone(), xs[1].clone()),
        // a op0 b op1 c, grouped left or right
        (2, 0) => bin(ops[1], bin(ops[0], xs[0].clone(), xs[1].clone()), xs[2].clone()),
        (2, _) => bin(ops[0], xs[0].clone(), bin(ops[1], xs[1].clone(), xs[2].clone())),
        // the five shapes over a op0 b op1 c op2 d
        (3, 0) => bin(ops[2], bin(ops[1], bin(ops[0], xs[0].clone(), xs[1].clone()), xs[2].clone()), xs[3].clone()),
        (3, 1) => bin(ops[2], bin(ops[0], xs[0].clone(), bin(ops[1], xs[1].clone(), xs[2].clone())), xs[3].clone()),
        (3, 2) => bin(ops[1], bin(ops[0], xs[0].clone(), xs[1].clone()), bin(ops[2], xs[2].clone(), xs[3].clone())),
        (3, 3) => bin(ops[0], xs[0].clone(), bin(ops[2], bin(ops[1], xs[1].clone(), xs[2].clone()), xs[3].clone())),
        (3, _) => bin(ops[0], xs[0].clone(), bin(ops[1], xs[1].clone(), bin(ops[2], xs[2].clone(), xs[3].clone()))),
        _ => unreachable!(),
    }
}

const R2: usize = 15;
const R3: usize = 10;

fn sizes(tier: Tier) -> (u64, u64, u64) {
    let f = full_operands().len() as u64;
    let ops1 = 13 * f * f;
    let ops2 = 2 * 13 * 13 * (R2 as u64).pow(3);
    let ops3 = match tier {
        Tier::Quick => 0,
        Tier::Thorough => 5 * 13u64.pow(3) * (R3 as u64).pow(4),
    };
    (ops1, ops2, ops3)
}

fn plan(tier: Tier) -> Vec<Workload> {
    let (o1, o2, o3) = sizes(tier);
    vec![
        Workload::new("ops1", (o1 + BATCH - 1) / BATCH),
        Workload::new("ops2", (o2 + BATCH - 1) / BATCH),
        Workload::new("ops3", (o3 + BATCH - 1) / BATCH),
        Workload::new("random", tier.pick(200_000, 4_000_000) / BATCH),
    ]
}

struct Pair<'p> {
    real: Session,
    model: Machine<'p>,
}

fn fresh<'p>(prog: &'p Program) -> Pair<'p> {
    fresh_with(prog, false)
}

/// `warnings`: the value of an expression does not depend on whether runtime warnings are enabled
fn fresh_with<'p>(prog: &'p Program, warnings: bool) -> Pair<'p> {
    let mut real = Session::new();
    real.it.enable_warnings = warnings;
    real.check_invariants = false;
    real.keep_log = false;
    real.call(Op::Line("A=7".into()));
    real.call(Op::Line("B$=\"AB\"".into()));
    real.call(Op::Line("DIM M(3)".into()));
    real.call(Op::Line("M(1)=4".into()));
    // ABS, INT and RND are ordinary names when no parenthesis follows
    real.call(Op::Line("INT=3".into()));
    let mut model = Machine::new(prog, 0);
    model.vars.insert("A".into(), Val::N(7.0));
    model.vars.insert("B$".into(), Val::S("AB".into()));
    model.vars.insert("INT".into(), Val::N(3.0));
    let _ = model.eval(&Expr::Num("0".into()));
    // DIM M(3): M(1)=4
    model.arrays.insert(
        "M".into(),
        crate::model::prog::Arr { dims: vec![4], cells: vec![Val::N(0.0), Val::N(4.0), Val::N(0.0), Val::N(0.0)] },
    );
    Pair { real, model }
}

fn real_print(sess: &mut Session, text: &str) -> (Res, String) {
    let rec = sess.call(Op::Line(format!("PRINT {}", text)));
    let mut s = String::new();
    for o in &rec.outs {
        if let Out::Print(p) = o {
            s.push_str(p);
        }
    }
    (rec.res.clone(), s)
}

/// returns false on violation
fn compare(ctx: &Ctx, rep: &mut Report, index: u64, pair: &mut Pair, e: &Expr, source: &str) -> bool {
    let want = pair.model.eval(e);
    let (want_text, want_err): (Option<String>, Option<&'static str>) = match &want {
        Ok(v) => (Some(format!("{}\n", v.show())), None),
        Err(f) => (None, Some(f.kind)),
    };
    for (spelling, text) in [("minimal", e.text()), ("redundant", e.text_redundant())] {
        let (res, printed) = real_print(&mut pair.real, &text);
        let ok = match (&res, &want_text, want_err) {
            (Res::Ok, Some(w), _) => &printed == w,
            (Res::Err(ei), None, Some(k)) => ei.kind == k,
            _ => false,
        };
        rep.count("evaluations_real");
        if !ok {
            let sig = match &res {
                Res::Panic(_) => "panic".to_string(),
                _ => "value-mismatch".to_string(),
            };
            ctx.violation(rep, "C02", &sig, index,
                format!("PRINT {} ({} parentheses): interpreter gave {} {:?}; the fold of the syntax tree gives {}",
                    text, spelling, res.to_json(), printed,
                    match &want { Ok(v) => format!("{:?}", v.show()), Err(f) => f.kind.to_string() }),
                json!({"expr": text, "tree": format!("{:?}", e), "source": source}));
            if pair.real.poisoned {
                // discard the interpreter after a panic
                return false;
            }
            return false;
        }
    }
    match want_err {
        Some(k) => rep.count(&format!("errors.{}", k)),
        None => rep.count("values"),
    }
    true
}

fn note_shape(rep: &mut Report, e: &Expr) {
    // operator pairs (parent, child, side) seen
    e.visit(&mut |x| {
        if let Expr::Bin(p, l, r) = x {
            if let Expr::Bin(c, _, _) = &**l {
                rep.set("op_pairs", &format!("{}<L {}", p.text(), c.text()));
            }
            if let Expr::Bin(c, _, _) = &**r {
                rep.set("op_pairs", &format!("{}<R {}", p.text(), c.text()));
            }
        }
    });
}

fn nontrivial(e: &Expr) -> bool {
    // >= 2 binary operators (of different tiers, or a same-tier pair: both are witnesses)
    e.count_bin() >= 2
}

fn random_expr(rng: &mut Rng, depth: u32) -> Expr {
    if depth == 0 || rng.chance(1, 4) {
        return match rng.below(12) {
            0..=4 => rng.pick(&num_leaves()).clone(),
            5..=7 => rng.pick(&str_leaves()).clone(),
            8 => Expr::Cell("M".into(), vec![Expr::Num(rng.s(&["0", "1", "3", "1.9"]).into())]),
            9 => {
                if rng.coin() {
                    // numerals with 15-18 significant digits and a fraction: each has ONE nearest double
                    let digits = 15 + rng.usize(4);
                    let point = rng.usize(3);
                    let mut t = String::new();
                    for k in 0..digits {
                        if k == point {
                            t.push('.');
                        }
                        t.push((b'0' + if k == 0 { 1 + rng.below(9) } else { rng.below(10) } as u8) as char);
                    }
                    Expr::Num(t)
                } else {
                    Expr::Num(rng.s(&["100", "007", "1.", "12.5", "0.25"]).into())
                }
            }
            10 => Expr::Cell("M".into(), vec![random_expr(rng, 1)]),
            // (in parentheses: blanks do not separate words, so `INT OR` would read as `IN TO R`)
            _ => if rng.coin() { Expr::Paren(Box::new(var(rng.s(&["INT", "ABS", "RND"])))) } else { Expr::Num("4".into()) },
        };
    }
    match rng.below(12) {
        0..=6 => bin(*rng.pick(&ALL_BIN), random_expr(rng, depth - 1), random_expr(rng, depth - 1)),
        7 => {
            let inner = random_expr(rng, depth - 1);
            let op = *rng.pick(&[Un::Minus, Un::Not]);
            Expr::Un(op, Box::new(inner))
        }
        8 => Expr::Abs(Box::new(random_expr(rng, depth - 1))),
        9 => Expr::Int(Box::new(random_expr(rng, depth - 1))),
        10 => Expr::Paren(Box::new(random_expr(rng, depth - 1))),
        _ => {
            // unary plus over something numeric-looking only
            Expr::Un(Un::Plus, Box::new(rng.pick(&num_leaves()).clone()))
        }
    }
}

fn handle<'p>(ctx: &Ctx, index: u64, ordinal: u64, empty: &'p Program, e: Expr, rep: &mut Report, pair: &mut Pair<'p>, source: &str) {
    // now and then a PRINT that fails after it has evaluated some items: nothing of it may show up later
    if ordinal % 61 == 0 && !pair.real.poisoned {
        pair.real.call(Op::Line("PRINT 7;\"x\";1/0".into()));
        rep.count("failing_multi_item_prints_interleaved");
    }
    if !compare(ctx, rep, index, pair, &e, source) && pair.real.poisoned {
        *pair = fresh(empty);
    }
    if nontrivial(&e) {
        rep.nontrivial(hash_str(&e.text()));
    }
    note_shape(rep, &e);
    if rep.want_sample() && ordinal % 50_021 == 0 {
        let w = pair.model.eval(&e);
        rep.sample(json!({"workload": source, "minimal": e.text(), "redundant": e.text_redundant(),
            "model": match w { Ok(v) => v.show(), Err(f) => f.kind.to_string() }}));
    }
}

fn run_case(ctx: &Ctx, index: u64, rep: &mut Report) {
    let empty = Program::default();
    // every other case runs with warnings enabled (PRINT records only are compared)
    let mut pair = fresh_with(&empty, index % 2 == 1);
    if index % 2 == 1 {
        rep.count("cases_with_warnings_enabled");
    }
    let (o1, o2, o3) = sizes(ctx.tier);
    let lo = index * BATCH;
    let mut done = 0u64;
    match ctx.workload.as_str() {
        "ops1" => {
            let f = full_operands();
            let n = f.len() as u64;
            for e in lo..(lo + BATCH).min(o1) {
                let op = ALL_BIN[(e / (n * n)) as usize];
                let a = &f[((e / n) % n) as usize];
                let b = &f[(e % n) as usize];
                handle(ctx, index, lo + done, &empty, bin(op, a.clone(), b.clone()), rep, &mut pair, "ops1");
                done += 1;
            }
            rep.add("ops1.trees", done);
        }
        "ops2" => {
            let r = reduced_operands(R2);
            let n = r.len() as u64;
            for e in lo..(lo + BATCH).min(o2) {
                let mut k = e;
                let c = (k % n) as usize;
                k /= n;
                let b = (k % n) as usize;
                k /= n;
                let a = (k % n) as usize;
                k /= n;
                let op1 = ALL_BIN[(k % 13) as usize];
                k /= 13;
                let op0 = ALL_BIN[(k % 13) as usize];
                k /= 13;
                let shape = k as usize;
                handle(ctx, index, lo + done, &empty, build_shape(shape, &[op0, op1], &[r[a].clone(), r[b].clone(), r[c].clone()]), rep, &mut pair, "ops2");
                done += 1;
            }
            rep.add("ops2.trees", done);
        }
        "ops3" => {
            let r = reduced_operands(R3);
            let n = r.len() as u64;
            for e in lo..(lo + BATCH).min(o3) {
                let mut k = e;
                let mut xs = [0usize; 4];
                for slot in xs.iter_mut().rev() {
                    *slot = (k % n) as usize;
                    k /= n;
                }
                let mut ops = [Bin::Add; 3];
                for slot in ops.iter_mut().rev() {
                    *slot = ALL_BIN[(k % 13) as usize];
                    k /= 13;
                }
                let shape = k as usize;
                let xs: Vec<Expr> = xs.iter().map(|i| r[*i].clone()).collect();
                handle(ctx, index, lo + done, &empty, build_shape(shape, &ops, &xs), rep, &mut pair, "ops3");
                done += 1;
            }
            rep.add("ops3.trees", done);
        }
        "random" => {
            let mut rng = ctx.rng(index);
            for _ in 0..BATCH {
                let depth = 2 + rng.below(4) as u32;
                let e = random_expr(&mut rng, depth);
                rep.max("random.max_binary_operators", e.count_bin() as u64);
                handle(ctx, index, lo + done, &empty, e, rep, &mut pair, "random");
                done += 1;
            }
            rep.add("random.trees", done);
        }
        other => panic!("unknown workload {}", other),
    }
    rep.evaluations += done.saturating_sub(1);
}

fn finalize(tier: Tier, rep: &mut Report) -> Finalize {
    let (o1, o2, o3) = sizes(tier);
    let exhaustive = rep.get("ops1.trees") == o1 && rep.get("ops2.trees") == o2 && rep.get("ops3.trees") == o3;
    Finalize {
        rule: format!(
            "A case is one syntax tree, evaluated by the real interpreter twice (`PRINT` of its minimal-parentheses and of its fully parenthesised text) and folded once by the model. \
             ops1: every binary operator over every pair of {} decorated operands (16 leaves x unary -, NOT, +, ABS, INT); every other case runs with runtime warnings enabled; ops2: both tree shapes x 13^2 operators x {}^3 operands; \
             ops3 (thorough): all five shapes x 13^3 operators x {}^4 operands; random: trees up to depth 5 with array cells, nested calls and explicit parentheses. \
             Non-trivial: the tree has at least two binary operators (a precedence or associativity witness). Distinct by hash of the minimal text (lower bound: capped per worker).",
            full_operands().len(), R2, R3),
        floors: vec![
            ("values".into(), 100_000),
            ("errors.TYPE MISMATCH".into(), 10_000),
            ("errors.DIVISION BY ZERO".into(), 1_000),
            ("distinct_nontrivial".into(), 100_000),
        ],
        assumptions: vec![
            "numbers are printed with Rust's Display for f64 in both model and implementation (the property names it as the specified formatting)".into(),
            "powf is the same libm routine in model and implementation".into(),
            "unary plus is generated over numeric operands only (its meaning on strings is not stated by the property; see C06)".into(),
        ],
        exhaustive,
        extras: json!({"enumerations": {"ops1": o1, "ops2": o2, "ops3": o3, "complete": exhaustive},
            "distinct_parent_child_operator_pairs": rep.sets.get("op_pairs").map(|s| s.len()).unwrap_or(0)}),
    }
}
