//! C03 — programs behave as an independent reference interpreter says they should.
//!
//! Oracle: M-prog on the same AST. Exact equality of printed output and of (error kind, line).

use crate::drive::{flush_trips, Res, Session};
use crate::exec::{self, ModelRun, RealRun};
use crate::gen::prog::{self, GenOpts, Generated};
use crate::model::ast::*;
use crate::report::Report;
use crate::runner::{Check, Ctx, Finalize, Tier, Workload};
use crate::util::hash_str;
use serde_json::{json, Value};

pub fn check() -> Check {
    Check { id: "C03", plan, run_case, finalize }
}

pub const TURN_CAP: usize = 5000;

fn plan(tier: Tier) -> Vec<Workload> {
    vec![
        Workload::new("programs", tier.pick(200_000, 5_000_000)),
        Workload::new("caps", 64),
    ]
}

/// Does the line hold an IF whose THEN statement suspends/transfers and is followed by ELSE? (shape of D5)
pub fn line_has_kf_shape(prog: &Program, line_no: u64) -> bool {
    fn stmt_has(s: &Stmt) -> bool {
        match s {
            Stmt::If { then, els, .. } => {
                let then_is_transfer = matches!(then, Branch::Stmt(b) if matches!(**b, Stmt::Gosub(_) | Stmt::For { .. } | Stmt::Input(_) | Stmt::Stop));
                if then_is_transfer && els.is_some() {
                    return true;
                }
                let in_then = matches!(then, Branch::Stmt(b) if stmt_has(b));
                let in_else = matches!(els, Some(Branch::Stmt(b)) if stmt_has(b));
                in_then || in_else
            }
            _ => false,
        }
    }
    prog.lines.iter().any(|l| l.number == line_no && l.stmts.iter().any(stmt_has))
}

/// Is the error "UNEXPECTED TOKEN at an ELSE token"? (decided from the caret rendering of the stored line)
pub fn error_is_at_else(res: &Res) -> bool {
    let Res::Err(e) = res else { return false };
    if e.kind != "SYNTAX/UNEXPECTED TOKEN" || e.caret.len() != 2 {
        return false;
    }
    let Some(ti) = e.token_index else { return false };
    match abasic_core::verif_hooks::tokenize(&e.caret[0], 0) {
        Ok(tokens) => tokens.get(ti).map(|t| t.debug == "Else").unwrap_or(false),
        Err(_) => false,
    }
}

pub fn case_json(g: &Generated, real: &RealRun, model: &ModelRun) -> Value {
    json!({
        "program": exec::program_json(&g.prog),
        "replies": g.replies,
        "real": {"printed": real.printed(), "outcome": format!("{:?}", real.final_res().outcome()), "turns": real.turns.len()},
        "model": {"printed": model.printed(), "outcome": format!("{:?}", model.outcome()), "turns": model.turns.len()},
    })
}

fn compare(ctx: &Ctx, rep: &mut Report, index: u64, g: &Generated, seed: u64) {
    let model = exec::run_model(&g.prog, seed, &g.replies, TURN_CAP);
    let mut sess = Session::new();
    sess.keep_log = false;
    sess.call(crate::drive::Op::Randomize(seed));
    if let Err(m) = exec::load_program(&mut sess, &g.prog) {
        ctx.violation(rep, "C03", "load-rejected", index, m, json!({"program": exec::program_json(&g.prog)}));
        return;
    }
    let cap = if model.capped { TURN_CAP } else { model.turns.len() + 64 };
    let real = exec::run_real(&mut sess, "RUN", &g.replies, cap);
    flush_trips(ctx, rep, index, &sess, || exec::program_json(&g.prog));

    rep.add("statements_executed_model", model.stmts_executed);
    rep.add("turns_real", real.turns.len() as u64);
    rep.max("max_gosub_fn_depth", model.max_frames as u64);
    rep.max("max_for_depth", model.max_loops as u64);
    for k in &model.kinds {
        rep.set("statement_kinds", k);
    }
    for f in &g.features {
        rep.count(&format!("feature.{}", f));
    }

    let (mk, ml) = model.outcome();
    let (rk, rl) = real.final_res().outcome();
    let rp = real.printed();
    let mp = model.printed();
    let same = if model.capped {
        rep.count("capped");
        rp.starts_with(&mp) || mp.starts_with(&rp)
    } else {
        rp == mp && (rk.clone(), rl) == (mk.clone(), ml)
    };
    if same {
        if mk != "OK" {
            rep.count(&format!("error.{}", mk));
        } else {
            rep.count("ended-ok");
        }
        if model.stmts_executed >= 10 && model.kinds.len() >= 3 || mk != "OK" {
            rep.nontrivial(hash_str(&g.prog.text()));
        }
        if rep.want_sample() && index % 1013 == 0 {
            rep.sample(json!({"program": exec::program_json(&g.prog), "printed": rp, "outcome": [mk, ml], "turns": real.turns.len()}));
        }
        return;
    }
    // known finding D5?
    if g.has_kf_shape
        && model.resumed_before_else
        && error_is_at_else(&real.final_res())
        && rl.map(|l| line_has_kf_shape(&g.prog, l)).unwrap_or(false)
        && mp.starts_with(&rp)
    {
        ctx.known_or_violation(rep, "C03-KF1", "C03", "then-transfer-else", index,
            format!("line {:?}: SYNTAX ERROR at the ELSE that follows a THEN GOSUB/FOR once control comes back", rl),
            case_json(g, &real, &model));
        return;
    }
    let sig = if matches!(real.final_res(), Res::Panic(_)) {
        "panic".to_string()
    } else if (rk.clone(), rl) != (mk.clone(), ml) {
        format!("outcome:{}!={}", rk, mk)
    } else {
        "output".to_string()
    };
    ctx.violation(rep, "C03", &sig, index,
        format!("program behaves differently from the reference interpreter: real outcome {:?} printed {:?}; model outcome {:?} printed {:?}",
            (rk, rl), crate::util::truncate(&rp, 300), (mk, ml), crate::util::truncate(&mp, 300)),
        case_json(g, &real, &model));
}

fn run_case(ctx: &Ctx, index: u64, rep: &mut Report) {
    let mut rng = ctx.rng(index);
    match ctx.workload.as_str() {
        "programs" => {
            let opts = GenOpts { inputs: false, stops: false, ..GenOpts::default() };
            let g = prog::generate(&mut rng, &opts);
            let seed = rng.below(1 << 33);
            compare(ctx, rep, index, &g, seed);
        }
        "caps" => {
            let g = Generated { prog: prog::recursion_program(index), replies: vec!["0".into()], ..Default::default() };
            compare(ctx, rep, index, &g, 0);
        }
        other => panic!("unknown workload {}", other),
    }
}

fn finalize(_tier: Tier, rep: &mut Report) -> Finalize {
    Finalize {
        rule: "A case is one generated program (G-prog: LET, PRINT with ; and , and juxtaposition, IF/THEN/ELSE incl. line-number forms, nested IF, ELSE-IF chains, GOTO forward and counter-guarded backward, GOSUB/RETURN with an acyclic call graph, FOR/TO/STEP/NEXT incl. zero-trip, single-line, mid-line and abandoned inner loops, READ/DATA/RESTORE, DIM and 1-3-dimensional cells, implicit arrays, DEF FN with dynamic scoping, END, RND, REM, deliberate runtime failures) entered line by line into a real interpreter, RUN to completion (turn cap 5000) and compared with M-prog on the same AST: printed text and (error kind, line). \
               Non-trivial: the model executed >= 10 statements of >= 3 kinds, or the run ends in a modelled runtime error. Distinct by hash of the program text.".into(),
        floors: vec![
            ("distinct_nontrivial".into(), 5_000),
            ("statements_executed_model".into(), 200_000),
            ("max_gosub_fn_depth".into(), 32),
            ("feature.NEXT-outer-abandons-inner".into(), 50),
            ("feature.FN-call".into(), 500),
            ("error.OUT OF DATA".into(), 20),
            ("error.BAD SUBSCRIPT".into(), 20),
            ("error.OUT OF MEMORY/STACK OVERFLOW".into(), 2),
        ],
        assumptions: vec![
            "M-prog encodes the documented semantics listed in DESIGN.md Appendix A".into(),
            "constructs whose meaning no document fixes (an IF nested in THEN together with ELSE, `THEN a:b ELSE c`, exotic DATA spellings) are not generated".into(),
        ],
        exhaustive: false,
        extras: json!({}),
    }
}
