//! C06 — the static checker and the interpreter agree on what is an error.
//!
//! Direction 1 (sound acceptance): a program the analyzer accepts (functions defined once, before use) never
//! ends in a syntax error, a type mismatch or an undefined-statement error, along every branch the driver can
//! force (IF conditions test variables read by INPUT on the first line; all 2^k reply vectors are run).
//! Direction 2 (no valid straight-line statement rejected): a line without conditionals, control transfers,
//! INPUT, DEF or user-function calls that the analyzer rejects must also fail when executed from a fresh state.

use crate::drive::{flush_trips, Op, Res, Session};
use crate::exec;
use crate::gen::prog::{self, GenOpts};
use crate::gen::stmt;
use crate::props::c03;
use crate::report::Report;
use crate::runner::{Check, Ctx, Finalize, Tier, Workload};
use crate::util::hash_str;
use abasic_core::{DiagnosticMessage, SourceFileAnalyzer};
use serde_json::json;

pub fn check() -> Check {
    Check { id: "C06", plan, run_case, finalize }
}

const BATCH: u64 = 256;

fn plan(tier: Tier) -> Vec<Workload> {
    vec![
        Workload::new("lines", tier.pick(600_000, 10_000_000) / BATCH),
        Workload::new("programs", tier.pick(40_000, 800_000)),
        // many failing lines in front of a valid one: what the analyzer says about a line must not depend on how
        // many other lines failed before it
        Workload::new("accumulate", tier.pick(4_000, 60_000)),
        // tiny programs around two spots where the analyzer and the interpreter each have their own code: jump targets
        // written with a fraction, and files that define a line number more than once
        Workload::new("small", tier.pick(6_000, 100_000)),
    ]
}

/// (number of Error diagnostics, first error text)
fn analysis_errors(text: &str) -> Result<(usize, String), String> {
    analysis(text).map(|(n, first, _, _)| (n, first))
}

/// (number of Error diagnostics, first error text, file lines carrying an Error, nesting depth left behind)
fn analysis(text: &str) -> Result<(usize, String, Vec<usize>, usize), String> {
    let a = crate::util::catch(|| SourceFileAnalyzer::analyze(text.to_string()))?;
    let mut n = 0;
    let mut first = String::new();
    let mut lines = vec![];
    for m in a.messages() {
        if let DiagnosticMessage::Error(l, e) = m {
            if n == 0 {
                first = format!("line {}: {}", l, e);
            }
            lines.push(*l);
            n += 1;
        }
    }
    // the analyzer shares the nesting-depth counter with the evaluator through the Program it hands over
    let depth = crate::util::catch(|| a.into_interpreter().verif_snapshot().nesting_depth)?;
    Ok((n, first, lines, depth))
}

fn covered_kind(kind: &str) -> bool {
    kind.starts_with("SYNTAX") || kind == "TYPE MISMATCH" || kind == "UNDEF'D STATEMENT"
}

fn run_case(ctx: &Ctx, index: u64, rep: &mut Report) {
    let mut rng = ctx.rng(index);
    match ctx.workload.as_str() {
        "lines" => {
            for _ in 0..BATCH {
                let body = stmt::line(&mut rng, 45);
                // one line in ten loses a statement separator: the interpreter starts the next statement wherever the
                // previous one ended (`X = 1 PRINT X` runs), and the analyzer has to accept what runs
                let body = if rng.chance(1, 10) && body.contains(" : ") {
                    rep.count("lines.separator_dropped");
                    body.replacen(" : ", " ", 1)
                } else {
                    body
                };
                // a twelfth of the lines put the statements behind a STOP (reached by CONT) or into the ELSE clause
                // of an IF whose THEN clause ends the program: still one path, judged in the first direction only
                let (body, needs_cont) = if rng.chance(1, 12) {
                    match rng.below(4) {
                        0 => (format!("STOP : {}", body), true),
                        1 => (format!("PRINT 1 : STOP : {}", body), true),
                        2 => (format!("IF 0 THEN END ELSE {}", body), false),
                        _ => (format!("IF 0 THEN STOP ELSE {}", body), false),
                    }
                } else {
                    (body, false)
                };
                let line = format!("10 {}", body);
                let (nerr, first) = match analysis_errors(&line) {
                    Ok(x) => x,
                    Err(m) => {
                        ctx.violation(rep, "C05", "analyzer-panic", index, format!("analyzer panicked on {:?}: {}", line, m), json!({"line": line}));
                        continue;
                    }
                };
                let mut sess = Session::new();
                sess.keep_log = false;
                sess.check_invariants = false;
                let entered = sess.call(Op::Line(line.clone())).res.clone();
                rep.count("lines.checked");
                if !entered.is_ok() {
                    // does not even tokenize: both sides reject
                    rep.count("lines.untokenizable");
                    continue;
                }
                // DATA for READ statements on the line: plenty of string-compatible items
                sess.call(Op::Line("20 DATA a, b, c, d, e, f".into()));
                let mut out = sess.run_line("RUN", 200);
                if needs_cont && out.res.is_ok() {
                    rep.count("lines.continued_after_stop");
                    out = sess.run_line("CONT", 200);
                }
                let runtime_failed = !out.res.is_ok();
                // the converse direction is stated for lines without a conditional only
                let has_conditional = body.contains("IF ") || needs_cont;
                if nerr > 0 && has_conditional {
                    rep.count("lines.rejected_with_conditional_not_judged");
                    continue;
                }
                if nerr > 0 {
                    rep.count("lines.rejected_by_analyzer");
                    if !runtime_failed {
                        ctx.violation(rep, "C06", "valid-line-rejected", index,
                            format!("the analyzer rejects `{}` ({}), but the line runs without error from a fresh state (printed {:?})", line, first, out.printed()),
                            json!({"line": line, "analyzer": first}));
                        continue;
                    }
                } else {
                    rep.count("lines.accepted_by_analyzer");
                    // single straight-line statements have one execution path: direction 1 applies as well
                    if let Res::Err(e) = &out.res {
                        if covered_kind(e.kind) {
                            ctx.violation(rep, "C06", "accepted-line-fails", index,
                                format!("the analyzer accepts `{}`, but executing it fails with {}", line, e.display),
                                json!({"line": line, "runtime": e.display}));
                            continue;
                        }
                        rep.count("lines.accepted_but_other_runtime_error");
                    }
                }
                let mixed = body.contains('$') || body.contains('"');
                if mixed {
                    rep.nontrivial(hash_str(&line));
                }
                if rep.want_sample() && rng.chance(1, 40_000) {
                    rep.sample(json!({"line": line, "analyzer_errors": nerr, "runtime": out.res.to_json()}));
                }
            }
            rep.evaluations += BATCH - 1;
        }
        "accumulate" => {
            let k = 5 + rng.usize(90);
            let mut lines: Vec<String> = (0..k).map(|i| {
                let n = 10 * (i + 1);
                match rng.below(5) {
                    0 => format!("{} X = ((1 + \"A\"))", n),
                    1 => format!("{} X = \"S\" + {}", n, i),
                    2 => format!("{} PRINT (((\"a\" * 2)))", n),
                    3 => format!("{} IF 1 THEN IF 1 THEN X = ((\"q\"))", n),
                    _ => format!("{} A$ = ((((1))))", n),
                }
            }).collect();
            let valid = rng.s(&["Y = ((((1))))", "PRINT (((1 + 2) * 3) - 4)", "A$ = \"x\"", "PRINT ABS(INT(ABS(-2)))", "PRINT 1",
                "IF 1 THEN IF 1 THEN IF 1 THEN PRINT ((2))", "DIM Q(((3)))", "Y = (((((((((((((((((((( 1 ))))))))))))))))))))"]);
            lines.push(format!("{} {}", 10 * (k + 1), valid));
            let text = lines.join("\n");
            match analysis(&text) {
                Err(m) => ctx.violation(rep, "C05", "analyzer-panic", index, format!("analyzer panicked: {}", m), json!({"file": lines})),
                Ok((_, _, error_lines, depth)) => {
                    rep.count("accumulate.files");
                    rep.add("accumulate.failing_lines_before_the_valid_one", k as u64);
                    if error_lines.contains(&k) {
                        ctx.violation(rep, "C06", "valid-line-rejected-after-failing-lines", index,
                            format!("after {} failing lines the analyzer also rejects the valid line `{}` (it accepts it when it stands alone, and it runs)", k, valid),
                            json!({"file": lines}));
                    } else if depth != 0 {
                        ctx.violation(rep, "C01", "nesting-depth-leak", index,
                            format!("after analysing a file with {} failing lines the nesting-depth counter handed to the interpreter is {} (must be 0)", k, depth),
                            json!({"file": lines}));
                    } else {
                        rep.nontrivial(hash_str(&text));
                    }
                }
            }
        }
        "small" => {
            let mut lines: Vec<String> = vec![];
            let frac = rng.s(&["", ".5", ".999", ".0", ".25"]);
            match rng.below(4) {
                0 => {
                    // jumps whose target is written with a fraction (the interpreter goes to the whole part)
                    let jump = rng.s(&["GOTO", "GOSUB"]);
                    lines.push(format!("10 {} 30{}", jump, frac));
                    lines.push("20 END".into());
                    lines.push(format!("30 PRINT 1 : {}", if jump == "GOSUB" { "RETURN" } else { "END" }));
                }
                1 => {
                    lines.push(format!("10 IF 1 THEN 30{} ELSE 40", frac));
                    lines.push("20 END".into());
                    lines.push("30 PRINT 3 : END".into());
                    lines.push("40 PRINT 4".into());
                }
                2 => {
                    lines.push(format!("10 X = 1 : IF X THEN GOTO 25{}", frac));
                    lines.push("25 PRINT X".into());
                }
                _ => {
                    // a line number defined twice: the LAST definition is the program (and the one to analyse)
                    let good = rng.s(&["X = 1", "PRINT X", "A$ = \"s\"", "FOR I = 1 TO 2 : NEXT I"]);
                    let bad = rng.s(&["X = \"A\" : PRINT X", "PRINT 1 +", "GOTO 99", "A$ = 5", "PRINT (1"]);
                    lines.push("10 X = 1".into());
                    let (first, second) = if rng.coin() { (good, bad) } else { (bad, good) };
                    lines.push(format!("20 {}", first));
                    if rng.coin() {
                        lines.push("30 PRINT X".into());
                    }
                    lines.push(format!("20 {}", second));
                }
            }
            let text = lines.join("\n");
            let (nerr, _) = match analysis_errors(&text) {
                Ok(x) => x,
                Err(m) => {
                    ctx.violation(rep, "C05", "analyzer-panic", index, format!("analyzer panicked: {}", m), json!({"file": lines}));
                    return;
                }
            };
            rep.count("small.files");
            if nerr > 0 {
                rep.count("small.rejected");
                return;
            }
            rep.count("small.accepted");
            let mut sess = Session::new();
            sess.keep_log = false;
            for l in &lines {
                sess.call(Op::Line(l.clone()));
            }
            let out = sess.run_line("RUN", 200);
            if let Res::Err(e) = &out.res {
                if covered_kind(e.kind) {
                    ctx.violation(rep, "C06", &format!("accepted-program-fails:{}", e.kind), index,
                        format!("the analyzer reports no error for {:?}, but RUN fails with {}", lines, e.display), json!({"file": lines, "runtime": e.display}));
                    return;
                }
            }
            rep.nontrivial(hash_str(&text));
        }
        "programs" => {
            let k = 1 + rng.usize(4);
            let opts = GenOpts {
                inputs: false, stops: false, forced_conds: k, type_mistake_permille: 40,
                failure_permille: 0, kf_permille: 25, undeclared: true, ..GenOpts::default()
            };
            let g = prog::generate(&mut rng, &opts);
            // the order of the lines in the file is not the order of the program: half of the files are shuffled
            // (the analyzer must still see every DEF before the calls that follow it in line-number order)
            let text = if rng.coin() {
                let mut lines = g.prog.text_lines();
                for i in (1..lines.len()).rev() {
                    let j = rng.usize(i + 1);
                    lines.swap(i, j);
                }
                rep.count("programs.file_order_shuffled");
                lines.join("\n")
            } else {
                g.prog.text()
            };
            let (nerr, _first) = match analysis_errors(&text) {
                Ok(x) => x,
                Err(m) => {
                    ctx.violation(rep, "C05", "analyzer-panic", index, format!("analyzer panicked: {}", m), exec::program_json(&g.prog));
                    return;
                }
            };
            rep.count("programs.checked");
            if nerr > 0 {
                rep.count("programs.rejected_by_analyzer");
                return;
            }
            rep.count("programs.accepted_by_analyzer");
            let mut branches: std::collections::BTreeSet<(u64, bool)> = Default::default();
            for mask in 0..(1u32 << k) {
                let replies: Vec<String> = (0..k).map(|i| if (mask >> i) & 1 == 1 { "1".to_string() } else { "0".to_string() }).collect();
                let mut sess = Session::new();
                sess.keep_log = false;
                sess.it.enable_tracing = true;
                if exec::load_program(&mut sess, &g.prog).is_err() {
                    ctx.violation(rep, "C06", "accepted-program-not-loadable", index, "an analysis-clean program has a line the interpreter rejects".into(), exec::program_json(&g.prog));
                    return;
                }
                let real = exec::run_real(&mut sess, "RUN", &replies, 2500);
                flush_trips(ctx, rep, index, &sess, || exec::program_json(&g.prog));
                rep.count("programs.executions");
                // coverage: which lines were reached under this vector
                for t in &real.turns {
                    for o in &t.outs {
                        if let crate::drive::Out::Trace(l) = o {
                            branches.insert((*l, (mask & 1) == 1));
                        }
                    }
                }
                if let Res::Err(e) = real.final_res() {
                    if covered_kind(e.kind) {
                        // known finding D5?
                        if g.has_kf_shape && c03::error_is_at_else(&real.final_res()) && e.line.map(|l| c03::line_has_kf_shape(&g.prog, l)).unwrap_or(false) {
                            ctx.known_or_violation(rep, "C06-KF1", "C06", "then-transfer-else", index,
                                "analysis-clean program fails with SYNTAX ERROR at the ELSE that follows THEN GOSUB/FOR when control comes back".into(),
                                json!({"program": exec::program_json(&g.prog), "replies": replies}));
                            continue;
                        }
                        ctx.violation(rep, "C06", &format!("accepted-program-fails:{}", e.kind), index,
                            format!("the analyzer reports no error, but with replies {:?} execution fails with {}", replies, e.display),
                            json!({"program": exec::program_json(&g.prog), "replies": replies, "runtime": e.display}));
                        return;
                    }
                    rep.count(&format!("programs.other_runtime_error.{}", e.kind));
                }
            }
            rep.add("programs.lines_reached_x_vector", branches.len() as u64);
            if k >= 2 {
                rep.nontrivial(hash_str(&text));
            }
            if rep.want_sample() && index % 1201 == 0 {
                rep.sample(json!({"program": exec::program_json(&g.prog), "forced_condition_variables": k, "executions": 1u32 << k}));
            }
        }
        other => panic!("unknown workload {}", other),
    }
}

fn finalize(_tier: Tier, rep: &mut Report) -> Finalize {
    Finalize {
        rule: "lines: G-stmt lines of 1-3 straight-line statements (assignments to scalars and cells with/without $, PRINT, DIM, FOR..TO..STEP, READ, RESTORE, DATA, REM; operands of every kind at every operator tier incl. chained comparisons, AND/OR/NOT over strings, unary + and -), 45% with one or two typing or syntax mistakes (incl. an ELSE that belongs to no IF and an ELSE after a multi-statement THEN clause); a tenth of the lines wrap a statement in an IF with a constant condition (judged in the first direction only); `10 <line>` is analysed and, independently, run on a fresh interpreter (with a DATA line for READ): analyzer error => the run must fail; analyzer clean => the run must not fail with SYNTAX / TYPE MISMATCH / UNDEF'D STATEMENT. \
               accumulate: 5-94 lines that fail analysis inside nested expressions followed by one valid line: the valid line must not be rejected and the nesting counter handed to the interpreter must be 0. A twelfth of the `lines` cases put the statements behind a STOP (executed by CONT) or into the ELSE clause of `IF 0 THEN END`. \
               small: 2-4 line programs with jump targets written with a fraction (GOTO 30.5, THEN 30.999) and files that define a line number twice (the last definition counts): analysis clean => RUN must not fail with one of the three kinds. \
               programs: G-prog programs whose IF conditions mostly test Z1..Zk (k <= 4) read by INPUT on the first line, with typing mistakes injected at 4% of assignments, half of the files with their lines in shuffled order; analysis-clean programs are executed under all 2^k reply vectors and must never end in one of the three error kinds. \
               Non-trivial: a line that mixes string and numeric operands; a program with >= 2 forced condition variables. Distinct by hash of the text.".into(),
        floors: vec![
            ("lines.rejected_by_analyzer".into(), 50_000),
            ("lines.accepted_by_analyzer".into(), 50_000),
            ("programs.accepted_by_analyzer".into(), 5_000),
            ("programs.executions".into(), 30_000),
            ("accumulate.files".into(), 3_000),
            ("small.accepted".into(), 1_500),
            ("small.rejected".into(), 500),
            ("lines.continued_after_stop".into(), 2_000),
            ("distinct_nontrivial".into(), 50_000),
        ],
        assumptions: vec![
            "only the implications the property states are checked: never which error or where".into(),
            "generated programs define each function once and before any call (the property's precondition)".into(),
        ],
        exhaustive: false,
        extras: json!({}),
    }
}
