//! C16 — runtime state stays within its caps and obeys name-suffix typing.
//!
//! Monitor: snapshot invariants S1–S4 (drive::snapshot_invariants) after every host call of every session —
//! here and, as tripwires, in every other session-driving check. Workloads owned by C16: hostile session
//! histories, and cap chasers whose outcome is predicted (OUT OF MEMORY / TYPE MISMATCH) and must leave
//! the interpreter usable.

use crate::drive::{flush_trips, Op, Out, Session};
use crate::gen::hist;
use crate::gen::prog;
use crate::report::Report;
use crate::runner::{Check, Ctx, Finalize, Tier, Workload};
use crate::util::hash_str;
use serde_json::json;

pub fn check() -> Check {
    Check { id: "C16", plan, run_case, finalize }
}

fn plan(tier: Tier) -> Vec<Workload> {
    vec![
        Workload::new("sessions", tier.pick(40_000, 1_000_000)),
        Workload::new("sessions_ship", tier.pick(15_000, 300_000)).ship(),
        Workload::new("chasers", chasers().len() as u64 * tier.pick(1, 4)),
        Workload::new("chasers_ship", chasers().len() as u64).ship(),
        // subroutines entered from the prompt while a program is suspended, and never returned from, must not pile up
        Workload::new("suspended", tier.pick(400, 4_000)),
    ]
}

/// liveness probe: the interpreter must be idle-able and still execute PRINT 1
pub fn liveness(sess: &mut Session) -> Result<(), String> {
    if sess.poisoned {
        return Err("interpreter panicked earlier".into());
    }
    sess.settle();
    if sess.state() != abasic_core::InterpreterState::Idle {
        return Err(format!("cannot be brought to Idle (state {:?})", sess.state()));
    }
    let r = sess.run_line("PRINT 1", 5);
    if !r.res.is_ok() || r.outs != vec![Out::Print("1\n".into())] {
        return Err(format!("PRINT 1 gave {} {:?}", r.res.to_json(), r.outs));
    }
    Ok(())
}

#[derive(Clone)]
pub struct Chaser {
    pub name: &'static str,
    pub lines: Vec<String>,
    /// immediate line that starts it (usually RUN)
    pub start: String,
    pub replies: Vec<String>,
    /// expected final error kind (None = ends without error)
    pub expect: Option<&'static str>,
    pub turn_cap: u64,
    /// caps the snapshot must have *reached* (stack depth, loop depth)
    pub reach_stack: usize,
    pub reach_loops: usize,
    /// loop depth must never exceed this
    pub max_loops_allowed: usize,
}

fn ch(name: &'static str, lines: &[&str], start: &str, expect: Option<&'static str>) -> Chaser {
    Chaser {
        name,
        lines: lines.iter().map(|s| s.to_string()).collect(),
        start: start.to_string(),
        replies: vec!["text".into(), "5".into()],
        expect,
        turn_cap: 40_000,
        reach_stack: 0,
        reach_loops: 0,
        max_loops_allowed: 32,
    }
}

const STACK: &str = "OUT OF MEMORY/STACK OVERFLOW";
const TOOBIG: &str = "OUT OF MEMORY/ARRAY TOO LARGE";
const TYPE: &str = "TYPE MISMATCH";

pub fn chasers() -> Vec<Chaser> {
    let mut v = vec![];
    for k in 0..4 {
        let p = prog::recursion_program(k);
        let lines: Vec<String> = p.text_lines();
        let expect = match k { 0 | 1 | 3 => Some(STACK), _ => None };
        let mut c = ch(["gosub-recursion", "fn-recursion", "gosub-32-ok", "gosub-31-plus-fn"][k as usize], &[], "RUN", expect);
        c.lines = lines;
        // function frames exist only during a call, i.e. never at a turn boundary where the hook looks
        c.reach_stack = match k { 0 | 2 => 32, 3 => 31, _ => 0 };
        v.push(c);
    }
    // g GOSUB frames, then a chain of k nested function calls: every route to the 33rd frame
    for g in [29usize, 30, 31, 32] {
        for k in [1usize, 2, 3, 4] {
            let mut lines = vec![
                "1 DEF FNA(X) = X + 1".to_string(),
                "2 DEF FNB(X) = FNA(X) + 1".to_string(),
                "3 DEF FNC(X) = FNB(X) + 1".to_string(),
                "4 DEF FND(X) = FNC(X) + 1".to_string(),
                "10 GOSUB 100".to_string(),
                "20 END".to_string(),
                format!("100 N = N + 1 : IF N < {} THEN GOSUB 100", g),
                format!("110 PRINT {}(N)", ["FNA", "FNB", "FNC", "FND"][k - 1]),
                "120 RETURN".to_string(),
            ];
            if g == 32 && k == 1 {
                lines.push("115 GOSUB 120".to_string());
            }
            let overflow = g + k > 32;
            let mut c = ch("gosub-then-fn", &[], "RUN", if overflow { Some(STACK) } else if g == 32 && k == 1 { Some(STACK) } else { None });
            c.lines = lines;
            c.reach_stack = g;
            v.push(c);
        }
    }
    // nested FORs over distinct variables
    for n in [32usize, 33] {
        let mut lines = vec![];
        for i in 0..n {
            lines.push(format!("{} FOR V{} = 1 TO 1", 10 + i, i));
        }
        lines.push("900 PRINT \"in\"".into());
        let mut c = ch(if n == 32 { "for-32-ok" } else { "for-33" }, &[], "RUN", if n == 32 { None } else { Some(STACK) });
        c.lines = lines;
        c.reach_loops = 32;
        v.push(c);
    }
    // 32 loops open, then a FOR over one of the 32 variables again (by GOTO): that replaces a loop, it does not add one
    for which in [0usize, 15, 31] {
        let mut lines = vec![];
        for i in 0..32 {
            lines.push(format!("{} FOR V{} = 1 TO 1", 10 + i, i));
        }
        lines.push(format!("900 C = C + 1 : IF C < 4 THEN GOTO {}", 10 + which));
        lines.push("910 PRINT \"in\"; C".into());
        let mut c = ch("for-32-reentered", &[], "RUN", None);
        c.lines = lines;
        c.reach_loops = 32;
        v.push(c);
    }
    let mut c = ch("for-reentered-by-goto", &["10 FOR I = 1 TO 3", "20 C = C + 1 : IF C < 5000 THEN 10", "30 PRINT C"], "RUN", None);
    c.max_loops_allowed = 1;
    c.reach_loops = 1;
    v.push(c);
    let mut c = ch("inner-loops-abandoned", &["10 FOR I = 1 TO 5000", "20 FOR J = 1 TO 2", "30 NEXT I", "40 PRINT I"], "RUN", None);
    c.max_loops_allowed = 2;
    c.reach_loops = 2;
    v.push(c);
    // loops opened at the prompt (or left open by an earlier run) do not count against a later RUN: it starts with
    // none of them, however many there were (abandoning loops does not accumulate state)
    for (k, start) in [(20usize, "RUN"), (32, "RUN"), (13, "RUN")] {
        let mut lines = vec![];
        for i in 0..20 {
            lines.push(format!("{} FOR V{} = 1 TO 1", 10 + i, i));
        }
        lines.push("900 PRINT \"in\"".into());
        for i in 0..k {
            lines.push(format!("FOR P{} = 1 TO 1", i));
        }
        let mut c = ch("prompt-loops-then-run", &[], start, None);
        c.lines = lines;
        c.max_loops_allowed = 20;
        c.reach_loops = 20;
        v.push(c);
    }
    let mut c = ch("gosub-never-returns-via-goto", &["10 GOSUB 100", "20 END", "100 C = C + 1 : IF C < 100 THEN GOTO 10", "110 RETURN"], "RUN", Some(STACK));
    c.reach_stack = 32;
    v.push(c);
    // DIM products around the cap
    let dims: &[(&str, Option<&'static str>)] = &[
        ("9998", None), ("9999", None), ("10000", Some(TOOBIG)), ("99,99", None), ("99,100", Some(TOOBIG)), ("100,99", Some(TOOBIG)),
        ("9,9,99", None), ("9,9,100", Some(TOOBIG)), ("21,21,20", Some(TOOBIG)), ("20,20,21", None), ("0", None), ("0,0,0", None),
        ("2147483647", Some(TOOBIG)), ("2147483648,1", Some(TOOBIG)), ("4294967295", Some(TOOBIG)), ("4294967295,4294967295", Some(TOOBIG)),
        ("4294967296,4294967296", Some(TOOBIG)), ("9223372036854775806,1", Some(TOOBIG)), ("9223372036854775807", Some(TOOBIG)),
        ("18446744073709551615", Some(TOOBIG)), ("65535,65535,65535,65535", Some(TOOBIG)), ("1,1,1,1,1,1,1,1,1,1,1,1,1,1", Some(TOOBIG)),
        ("3,3,3,3,3", None), ("9,9,9,9", None), ("9,9,9,10", Some(TOOBIG)),
    ];
    for (d, e) in dims {
        let mut c = ch("dim", &[], "RUN", *e);
        c.lines = vec![format!("10 DIM A({})", d), "20 PRINT \"ok\"".into()];
        v.push(c);
        let mut c = ch("dim$", &[], &format!("DIM Z$({})", d), *e);
        c.lines = vec![];
        v.push(c);
    }
    // implicit arrays with 1..19 subscripts
    for n in 1..=19usize {
        let subs = vec!["1"; n].join(",");
        let e = if n >= 4 { Some(TOOBIG) } else { None };
        let mut c = ch("implicit-read", &[], &format!("PRINT A({})", subs), e);
        c.lines = vec![];
        v.push(c);
        let mut c = ch("implicit-write", &[], "RUN", e);
        c.lines = vec![format!("10 B$({}) = \"x\"", subs)];
        v.push(c);
    }
    // every write path with the wrong kind
    let typed: &[(&[&str], &str, Option<&'static str>)] = &[
        (&["10 A = \"s\""], "RUN", Some(TYPE)),
        (&["10 A$ = 1"], "RUN", Some(TYPE)),
        (&["10 LET A$ = 1 + 1"], "RUN", Some(TYPE)),
        (&["10 FOR A$ = 1 TO 2"], "RUN", Some(TYPE)),
        (&["10 NEXT A$"], "RUN", Some(TYPE)),
        (&["10 FOR I = \"a\" TO 2"], "RUN", Some(TYPE)),
        (&["10 READ A", "20 DATA hello"], "RUN", Some("DATA TYPE MISMATCH")),
        (&["10 READ A$", "20 DATA 5", "30 PRINT A$"], "RUN", None),
        (&["10 READ M(1)", "20 DATA \"q\""], "RUN", Some("DATA TYPE MISMATCH")),
        (&["10 INPUT A", "20 PRINT A"], "RUN", None),
        (&["10 INPUT M(2)", "20 PRINT M(2)"], "RUN", None),
        (&["10 INPUT A$", "20 PRINT A$"], "RUN", None),
        (&["10 DEF FNA(X) = X", "20 PRINT FNA(\"s\")"], "RUN", Some(TYPE)),
        (&["10 DEF FNS$(S$) = S$", "20 PRINT FNS$(1)"], "RUN", Some(TYPE)),
        (&["10 DEF FNA(X, Y$) = X", "20 PRINT FNA(1, 2)"], "RUN", Some(TYPE)),
        (&["10 M(1) = \"s\""], "RUN", Some(TYPE)),
        (&["10 R$(1) = 1"], "RUN", Some(TYPE)),
        (&["10 DIM M(3)", "20 M(1) = \"s\""], "RUN", Some(TYPE)),
        (&["10 DEF FNA(X) = \"str\"", "20 Y = FNA(1)"], "RUN", Some(TYPE)),
        (&["10 DEF FNA(X) = \"str\"", "20 Y$ = FNA(1)", "30 PRINT Y$"], "RUN", None),
    ];
    for (lines, start, e) in typed {
        v.push(ch("typed-write", lines, start, *e));
    }
    v
}

pub fn run_chaser(ctx: &Ctx, rep: &mut Report, index: u64, c: &Chaser) {
    let mut sess = Session::new();
    sess.keep_log = false;
    let case = || json!({"chaser": c.name, "lines": c.lines, "start": c.start, "expect": c.expect});
    for l in &c.lines {
        sess.call(Op::Line(l.clone()));
    }
    let mut ridx = 0;
    let mut res = sess.call(Op::Line(c.start.clone())).res.clone();
    let mut turns = 1u64;
    let mut max_loops = 0usize;
    let mut max_stack = 0usize;
    loop {
        if let Some(s) = &sess.last_snapshot {
            max_loops = max_loops.max(s.loops.len());
            max_stack = max_stack.max(s.stack.len());
        }
        if sess.poisoned || !res.is_ok() || turns >= c.turn_cap {
            break;
        }
        match sess.state() {
            abasic_core::InterpreterState::Running => {
                res = sess.call(Op::Cont).res.clone();
                turns += 1;
            }
            abasic_core::InterpreterState::AwaitingInput => {
                let t = crate::exec::reply_at(&c.replies, ridx);
                ridx += 1;
                sess.call(Op::Input(t));
            }
            _ => break,
        }
    }
    rep.add("chaser.turns", turns);
    rep.max("max_stack_depth_observed", max_stack as u64);
    rep.max("max_loop_depth_observed", max_loops as u64);
    let tripped = flush_trips(ctx, rep, index, &sess, case);
    if tripped {
        return;
    }
    let got = res.err_kind();
    if got != c.expect {
        ctx.violation(rep, "C16", &format!("chaser-outcome:{}", c.name), index,
            format!("cap chaser `{}` ended with {} (expected {:?}); lines {:?} start {:?}", c.name, res.to_json(), c.expect, c.lines, c.start), case());
        return;
    }
    if max_loops > c.max_loops_allowed {
        ctx.violation(rep, "C16", "loops-accumulate", index,
            format!("cap chaser `{}`: {} loops were open at once (allowed {})", c.name, max_loops, c.max_loops_allowed), case());
        return;
    }
    if max_stack < c.reach_stack || max_loops < c.reach_loops {
        rep.inconclusive.push(format!("chaser {} did not reach the cap it chases (stack {}, loops {})", c.name, max_stack, max_loops));
    }
    if let Err(m) = liveness(&mut sess) {
        ctx.violation(rep, "C16", "not-usable-after-cap", index, format!("after cap chaser `{}`: {}", c.name, m), case());
        return;
    }
    flush_trips(ctx, rep, index, &sess, case);
    rep.count(&format!("chaser.{}", c.name));
    if rep.want_sample() && index % 17 == 0 {
        rep.sample(json!({"chaser": c.name, "lines": c.lines, "start": c.start, "outcome": res.to_json(), "max_stack": max_stack, "max_loops": max_loops, "turns": turns}));
    }
    rep.nontrivial(hash_str(&format!("{}|{:?}|{}|{}", c.name, c.lines, c.start, ctx.profile)));
}

fn run_case(ctx: &Ctx, index: u64, rep: &mut Report) {
    let mut rng = ctx.rng(index);
    match ctx.workload.as_str() {
        "sessions" | "sessions_ship" => {
            let len = 20 + rng.usize(40);
            let (ops, hg) = hist::generate(&mut rng, len, true);
            let mut sess = Session::new();
            sess.keep_log = false;
            let mut ridx = 0;
            let mut calls = 0u64;
            for op in &ops {
                calls += hist::apply(&mut sess, op, &hg.replies, &mut ridx) as u64;
                if sess.poisoned {
                    break;
                }
            }
            rep.add("session.calls", calls);
            rep.max("max_stack_depth_observed", sess.max_stack as u64);
            rep.max("max_loop_depth_observed", sess.max_loops as u64);
            let case = || json!({"history": ops.iter().map(|o| format!("{:?}", o)).collect::<Vec<_>>()});
            flush_trips(ctx, rep, index, &sess, case);
            if let Some(s) = &sess.last_snapshot {
                rep.max("max_arrays_in_one_session", s.arrays.len() as u64);
                for a in &s.arrays {
                    rep.set("array_shapes", &format!("{:?}", a.dimensions));
                }
            }
            if sess.max_stack >= 31 || sess.max_loops >= 31 {
                rep.count("sessions_near_cap");
            }
            if calls >= 100 {
                rep.nontrivial(hash_str(&format!("{:?}", ops.iter().map(|o| format!("{:?}", o)).collect::<Vec<_>>())));
            }
        }
        "chasers" | "chasers_ship" => {
            let cs = chasers();
            let c = &cs[(index as usize) % cs.len()];
            run_chaser(ctx, rep, index, c);
        }
        "suspended" => {
            let mut rng = ctx.rng(index);
            let mut sess = Session::new();
            sess.keep_log = false;
            let program = ["10 A = 1 : STOP", "15 FOR J = 1 TO 100 : A = A + 1 : NEXT J", "20 PRINT \"resumed\"", "30 END", "100 B = B + 1 : END",
                "200 FOR I = 1 TO 1 : END", "300 B = B + 1 : PRINT 1 / 0", "400 GOSUB 100"];
            for l in program {
                sess.call(Op::Line(l.to_string()));
            }
            let by_break = rng.coin();
            sess.run_line("RUN", if by_break { 3 } else { 50 });
            if by_break {
                sess.run_line("CONT", 7 + rng.below(20));
                sess.settle();
            }
            let n = 34 + rng.usize(40);
            let mut max_stack = 0usize;
            let mut script = vec![];
            for _ in 0..n {
                let l = rng.s(&["GOSUB 100", "GOSUB 200", "GOSUB 300", "GOSUB 400", "GOSUB 100 : PRINT 2"]);
                script.push(l);
                sess.run_line(l, 30);
                sess.settle();
                if sess.poisoned {
                    break;
                }
                max_stack = max_stack.max(sess.snapshot().stack.len());
            }
            let case = || json!({"program": program, "suspended_by": if by_break { "host break" } else { "STOP" }, "typed": script});
            if !sess.poisoned {
                let last = sess.run_line("GOSUB 100", 30);
                if !last.res.is_ok() {
                    ctx.violation(rep, "C16", "frames-accumulate-across-typed-lines", index,
                        format!("after {} subroutines entered from the prompt (none returned) a one-level `GOSUB 100` is refused: {} (deepest stack seen at a turn boundary: {})", n, last.res.to_json(), max_stack),
                        case());
                }
            }
            flush_trips(ctx, rep, index, &sess, case);
            if let Err(m) = liveness(&mut sess) {
                ctx.violation(rep, "C16", "unusable-after-typed-gosubs", index, m, case());
            }
            rep.add("suspended.typed_gosubs", n as u64);
            rep.max("suspended.max_stack_at_turn_boundary", max_stack as u64);
            rep.nontrivial(hash_str(&format!("susp|{}|{:?}", by_break, script)));
        }
        other => panic!("unknown workload {}", other),
    }
}

fn finalize(_tier: Tier, rep: &mut Report) -> Finalize {
    Finalize {
        rule: "sessions: hostile G-hist histories (program entry, runs, breaks, replies, immediate statements, edits, NEW, arbitrary text and boundary numerals), invariants S1-S4 (<= 32 frames, <= 32 loops with distinct variables, array cells == product of dimensions <= 10000, value kinds match name suffixes for variables, cells and parameters) checked through the snapshot hook after EVERY host call, on the monitor and the ship build. \
               chasers: a catalogue of cap-chasing programs with predicted outcome (GOSUB / FN recursion to 32 and 33 frames, 32 and 33 nested FORs, a FOR over one of 32 open loops re-entered, FOR re-entered by GOTO 5000 times, inner loops abandoned 5000 times, DIM products around 10000 cells in 1-3 dimensions, bounds up to 2^64 and products that overflow 64 bits, implicit arrays with 1-19 subscripts, every write path with the wrong kind); the outcome must be the predicted one and the interpreter must still run PRINT 1. \
               suspended: a program suspended by STOP or a host break, then 34-73 typed `GOSUB n` whose subroutines end without RETURN (END, error, nested GOSUB): a further one-level GOSUB must still be accepted. \
               Non-trivial: a session with >= 100 host calls, or a chaser (all are). Distinct by hash of history / chaser + build profile.".into(),
        floors: vec![
            ("session.calls".into(), 500_000),
            ("max_stack_depth_observed".into(), 32),
            ("max_loop_depth_observed".into(), 32),
            ("chaser.dim".into(), 40),
            ("suspended.typed_gosubs".into(), 10_000),
            ("chaser.typed-write".into(), 30),
            ("distinct_nontrivial".into(), 2_000),
        ],
        assumptions: vec!["the snapshot hook reports the real containers (verif_hooks.rs reads the private fields directly)".into()],
        exhaustive: false,
        extras: json!({"invariants": ["S1 stack<=32", "S2 loops<=32, distinct variables", "S3 array cells==product(dims)<=10000, dims non-empty", "S4 kind matches name suffix (variables, arrays, parameters)"]}),
    }
}
