//! C20 — the language server survives any document and reports in-bounds positions.
//!
//! The real `abasic-lsp` binary runs as a child process on stdio; a scripted JSON-RPC session sends
//! didOpen / didChange / semanticTokens/full. Oracles: liveness (every notification answered, child alive
//! until shutdown, exit 0), bounds in UTF-16 units, and equality with the in-process analyzer's messages and
//! token types converted by an independent byte -> UTF-16 model.

use crate::gen::prog::{self, GenOpts};
use crate::gen::{text, toks};
use crate::props::c05;
use crate::report::Report;
use crate::runner::{Check, Ctx, Finalize, Tier, Workload, VERIF_DIR};
use crate::util::{hash_str, Rng};
use abasic_core::{DiagnosticMessage, SourceFileAnalyzer, TokenType};
use serde_json::{json, Value};
use std::io::{Read, Write};
use std::process::{Child, ChildStdin, Command, Stdio};
use std::sync::mpsc::{channel, Receiver};
use std::time::Duration;

pub fn check() -> Check {
    Check { id: "C20", plan, run_case, finalize }
}

fn plan(tier: Tier) -> Vec<Workload> {
    let mut w = Workload::new("sessions", tier.pick(1_200, 40_000));
    w.watchdog_s = 900;
    vec![w]
}

const WAIT: Duration = Duration::from_secs(30);

struct Server {
    child: Child,
    stdin: ChildStdin,
    rx: Receiver<Value>,
    next_id: u64,
}

impl Server {
    fn spawn() -> Result<Server, String> {
        let bin = format!("{}/target/repo/debug/abasic-lsp", VERIF_DIR);
        let mut child = Command::new(&bin)
            .env("RUST_BACKTRACE", "0")
            .env("NO_COLOR", "1")
            .stdin(Stdio::piped())
            .stdout(Stdio::piped())
            .stderr(Stdio::null())
            .spawn()
            .map_err(|e| format!("spawn {}: {}", bin, e))?;
        let stdin = child.stdin.take().ok_or("no stdin")?;
        let mut stdout = child.stdout.take().ok_or("no stdout")?;
        let (tx, rx) = channel();
        std::thread::spawn(move || {
            let mut buf: Vec<u8> = vec![];
            let mut chunk = [0u8; 65536];
            loop {
                // parse as many frames as the buffer holds
                loop {
                    let Some(hend) = find(&buf, b"\r\n\r\n") else { break };
                    let header = String::from_utf8_lossy(&buf[..hend]).to_string();
                    let len = header
                        .lines()
                        .find_map(|l| l.to_ascii_lowercase().strip_prefix("content-length:").map(|v| v.trim().parse::<usize>().unwrap_or(0)))
                        .unwrap_or(0);
                    if buf.len() < hend + 4 + len {
                        break;
                    }
                    let body = buf[hend + 4..hend + 4 + len].to_vec();
                    buf.drain(..hend + 4 + len);
                    if let Ok(v) = serde_json::from_slice::<Value>(&body) {
                        if tx.send(v).is_err() {
                            return;
                        }
                    }
                }
                match stdout.read(&mut chunk) {
                    Ok(0) | Err(_) => return,
                    Ok(n) => buf.extend_from_slice(&chunk[..n]),
                }
            }
        });
        Ok(Server { child, stdin, rx, next_id: 1 })
    }

    fn send(&mut self, v: Value) -> Result<(), String> {
        let body = serde_json::to_vec(&v).map_err(|e| e.to_string())?;
        let header = format!("Content-Length: {}\r\n\r\n", body.len());
        self.stdin.write_all(header.as_bytes()).and_then(|_| self.stdin.write_all(&body)).and_then(|_| self.stdin.flush()).map_err(|e| format!("write to server failed: {}", e))
    }

    fn request(&mut self, method: &str, params: Value) -> Result<u64, String> {
        let id = self.next_id;
        self.next_id += 1;
        self.send(json!({"jsonrpc": "2.0", "id": id, "method": method, "params": params}))?;
        Ok(id)
    }

    fn notify(&mut self, method: &str, params: Value) -> Result<(), String> {
        self.send(json!({"jsonrpc": "2.0", "method": method, "params": params}))
    }

    /// wait for a message satisfying `pred`
    fn wait_for(&mut self, pred: impl Fn(&Value) -> bool) -> Result<Value, Wait> {
        loop {
            match self.rx.recv_timeout(WAIT) {
                Ok(v) => {
                    if pred(&v) {
                        return Ok(v);
                    }
                }
                Err(std::sync::mpsc::RecvTimeoutError::Timeout) => {
                    return match self.child.try_wait() {
                        Ok(Some(st)) => Err(Wait::Died(format!("{:?}", st))),
                        _ => Err(Wait::Timeout),
                    };
                }
                Err(std::sync::mpsc::RecvTimeoutError::Disconnected) => {
                    // stdout closed: the child is gone (or going)
                    std::thread::sleep(Duration::from_millis(50));
                    let st = self.child.try_wait().ok().flatten();
                    return Err(Wait::Died(format!("{:?}", st)));
                }
            }
        }
    }
}

enum Wait {
    Died(String),
    Timeout,
}

fn find(hay: &[u8], needle: &[u8]) -> Option<usize> {
    hay.windows(needle.len()).position(|w| w == needle)
}

/// M-utf16: UTF-16 code units before byte offset `b` of `line` (b floored to a char boundary)
thread_local! {
    /// the unit the server announced for `character` offsets in this session: 0 = UTF-16 (the protocol's default), 1 = UTF-8 bytes, 2 = code points
    static UNIT: std::cell::Cell<u8> = std::cell::Cell::new(0);
}

fn unit_len(ch: char) -> u32 {
    match UNIT.with(|u| u.get()) {
        1 => ch.len_utf8() as u32,
        2 => 1,
        _ => ch.len_utf16() as u32,
    }
}

pub fn utf16_col(line: &str, b: usize) -> u32 {
    let mut units = 0u32;
    for (i, ch) in line.char_indices() {
        if i + ch.len_utf8() > b {
            break;
        }
        units += unit_len(ch);
    }
    units
}

/// M-utf16 as a table: UTF-16 units before every byte offset (floored to a char boundary), one pass
pub fn utf16_table(line: &str) -> Vec<u32> {
    let mut t = vec![0u32; line.len() + 1];
    let mut units = 0u32;
    let mut i = 0usize;
    for ch in line.chars() {
        for k in 0..ch.len_utf8() {
            t[i + k] = units;
        }
        i += ch.len_utf8();
        units += unit_len(ch);
    }
    t[line.len()] = units;
    t
}

pub fn utf16_len(line: &str) -> u32 {
    line.chars().map(unit_len).sum()
}

fn token_type_index(t: TokenType) -> u32 {
    match t {
        TokenType::Symbol => 0,
        TokenType::String => 1,
        TokenType::Number => 2,
        TokenType::Operator => 3,
        TokenType::Comment => 4,
        TokenType::Keyword => 5,
        TokenType::Delimiter => 6,
        TokenType::Data => 7,
    }
}

/// expected diagnostics (severity, message, line, start, end) and tokens (line, start, len, type) in UTF-16
fn expected(text: &str) -> (Vec<(u64, String, u64, u64, u64)>, Vec<(u32, u32, u32, u32)>) {
    let lines: Vec<&str> = text.split('\n').collect();
    let a = SourceFileAnalyzer::analyze(text.to_string());
    let mut diags = vec![];
    for m in a.messages() {
        if let Some((l, r)) = a.source_file_map().map_to_source(m) {
            let line = lines.get(l).copied().unwrap_or("");
            let (sev, msg) = match m {
                DiagnosticMessage::Warning(_, _, s) => (2u64, s.clone()),
                DiagnosticMessage::Error(_, e) => (1u64, e.to_string()),
            };
            diags.push((sev, msg, l as u64, utf16_col(line, r.start) as u64, utf16_col(line, r.end) as u64));
        }
    }
    diags.sort();
    let mut tokens = vec![];
    for (li, ts) in a.token_types().iter().enumerate() {
        let line = lines.get(li).copied().unwrap_or("");
        let table = utf16_table(line);
        for (ty, r) in ts {
            let s = table[r.start.min(line.len())];
            let e = table[r.end.min(line.len())];
            tokens.push((li as u32, s, e - s, token_type_index(*ty)));
        }
    }
    (diags, tokens)
}

fn document(rng: &mut Rng) -> String {
    if rng.chance(1, 25) {
        // a long listing with a message on (almost) every line: nothing may be dropped or capped
        let n = 60 + rng.usize(400);
        return (0..n).map(|k| match rng.below(6) {
            0 => format!("PRINT {}", k),
            1 => format!("{} X = \"s{}\"", k + 1, k),
            2 => format!("{} PRINT %", k + 1),
            3 => format!("{} V{} = 1", k + 1, k % 300),
            4 => format!("{} PRINT \"é\" + {}", k + 1, k),
            _ => format!("{} PRINT U{}", k + 1, k % 300),
        }).collect::<Vec<_>>().join("\n");
    }
    match rng.below(10) {
        0..=2 => {
            // C05 shapes
            let n = 1 + rng.usize(12);
            // numbers of different widths (the same statement text then sits at different columns) and table boundaries
            let nums = ["10", "10", "20", "30", "5", "100", "1000", "63999", "65536"];
            (0..n).map(|_| rng.s(c05::KINDS).replace("{n}", rng.s(&nums)).replace('\r', "")).collect::<Vec<_>>().join("\n")
        }
        3..=4 => {
            // non-ASCII text before later tokens
            let n = 1 + rng.usize(6);
            (0..n)
                .map(|k| {
                    let s = rng.s(&["é", "😀", "中文", "ü ö", "a", "λx"]);
                    match rng.below(5) {
                        0 => format!("{} PRINT \"{}\" + 1", 10 * (k + 1), s),
                        1 => format!("{} A$ = \"{}\" : X = \"{}\"", 10 * (k + 1), s, s),
                        2 => format!("{} REM {} : PRINT", 10 * (k + 1), s),
                        3 => format!("{} DATA {}, \"{}\" : Y = Q", 10 * (k + 1), s, s),
                        _ => format!("{} PRINT \"{}\"; {} ; 1", 10 * (k + 1), s, s),
                    }
                })
                .collect::<Vec<_>>()
                .join("\n")
        }
        5 => {
            let n = rng.usize(8);
            (0..n).map(|_| text::random_line(rng, 12).replace('\r', " ")).collect::<Vec<_>>().join("\n")
        }
        6 => {
            let n = 1 + rng.usize(8);
            (0..n).map(|k| format!("{} {}", 10 * (k + 1), toks::join(&toks::random_pieces(rng, 8)).replace('\r', " "))).collect::<Vec<_>>().join("\n")
        }
        7 => {
            let g = prog::generate(rng, &GenOpts { inputs: true, stops: true, ..GenOpts::default() });
            g.prog.text().replace('\n', if rng.chance(1, 4) { "\r\n" } else { "\n" })
        }
        8 => match rng.below(3) {
            0 => format!("10 PRINT {}1{}", "(".repeat(rng.usize(300)), ")".repeat(rng.usize(300))),
            // long runs of one token: any recursion that is not behind the nesting limit exhausts the server's stack
            1 => format!("10 PRINT {}1", rng.s(&["-", "NOT ", "+", "- -", "NOT -"]).repeat(20_000 + rng.usize(20_000))),
            _ => format!("10 {}PRINT 1", rng.s(&["IF 1 THEN ", "IF 0 THEN PRINT 1 ELSE "]).repeat(5_000 + rng.usize(5_000))),
        },
        _ => String::new(),
    }
}

struct Stats {
    other_document_token_requests: u64,
    offers_with_utf8_after_utf16: u64,
    late_publishes: u64,
    max_diags: u64,
    bursts: u64,
    burst_notifications: u64,
    docs: u64,
    diags: u64,
    tokens: u64,
    non_ascii_docs: u64,
    token_requests: u64,
}


/// Check one publishDiagnostics message against the text it must describe.
fn check_publish(diag: &Value, text: &str, doc_json: &Value, stats: &mut Stats) -> Result<usize, (String, String, Value)> {
    let doc_json = doc_json.clone();
    stats.docs += 1;
    let lines: Vec<&str> = text.split('\n').collect();
    let (want_diags, _) = expected(text);
    let mut got: Vec<(u64, String, u64, u64, u64)> = vec![];
    for d in diag.pointer("/params/diagnostics").and_then(|x| x.as_array()).cloned().unwrap_or_default() {
        let sl = d.pointer("/range/start/line").and_then(|x| x.as_u64()).unwrap_or(u64::MAX);
        let sc = d.pointer("/range/start/character").and_then(|x| x.as_u64()).unwrap_or(u64::MAX);
        let el = d.pointer("/range/end/line").and_then(|x| x.as_u64()).unwrap_or(u64::MAX);
        let ec = d.pointer("/range/end/character").and_then(|x| x.as_u64()).unwrap_or(u64::MAX);
        let sev = d.get("severity").and_then(|x| x.as_u64()).unwrap_or(0);
        let msg = d.get("message").and_then(|x| x.as_str()).unwrap_or("").to_string();
        if sl != el || (sl as usize) >= lines.len() {
            return Err(("diag-line".into(), format!("diagnostic {:?} on line {}..{} of a {}-line document", msg, sl, el, lines.len()), doc_json));
        }
        let ll = utf16_len(lines[sl as usize]) as u64;
        if sc > ec || ec > ll {
            return Err(("diag-columns".into(), format!("diagnostic {:?} spans columns {}..{} on line {} which has {} UTF-16 units", msg, sc, ec, sl, ll), doc_json));
        }
        got.push((sev, msg, sl, sc, ec));
        stats.diags += 1;
    }
    got.sort();
    if got != want_diags {
        let shown = |v: &Vec<(u64, String, u64, u64, u64)>| if v.len() > 12 { format!("{} diagnostics, first {:?}", v.len(), &v[..3]) } else { format!("{:?}", v) };
        return Err(("diag-set".into(), format!("server diagnostics ({}) differ from the analyzer's messages ({})", shown(&got), shown(&want_diags)), doc_json));
    }
    stats.max_diags = stats.max_diags.max(got.len() as u64);
    Ok(got.len())
}

/// Err((signature, explanation, document))
fn session(rng: &mut Rng, stats: &mut Stats, nontrivial: &mut Vec<u64>) -> Result<(), (String, String, Value)> {
    let mut srv = Server::spawn().map_err(|e| ("INCONCLUSIVE".to_string(), e, Value::Null))?;
    let inc = |e: String| ("INCONCLUSIVE".to_string(), e, Value::Null);
    // what the client says it can decode (LSP 3.17 `general.positionEncodings`); whatever the server announces in
    // return is the unit its positions are checked in (absent = UTF-16)
    let offered: Option<Vec<&str>> = match rng.below(8) {
        0 => Some(vec!["utf-16"]),
        1 => Some(vec!["utf-8"]),
        2 => Some(vec!["utf-16", "utf-8"]),
        3 => Some(vec!["utf-8", "utf-16"]),
        4 => Some(vec!["utf-32", "utf-16", "utf-8"]),
        5 => Some(vec!["utf-32", "utf-8", "utf-16"]),
        _ => None,
    };
    let caps = match &offered { Some(list) => json!({"general": {"positionEncodings": list}}), None => json!({}) };
    let id = srv.request("initialize", json!({"processId": null, "rootUri": null, "capabilities": caps})).map_err(inc)?;
    let init = match srv.wait_for(|v| v.get("id").and_then(|x| x.as_u64()) == Some(id)) {
        Ok(v) => v,
        Err(Wait::Died(st)) => return Err(("died-at-initialize".into(), format!("server died during initialize: {}", st), Value::Null)),
        Err(Wait::Timeout) => return Err(inc("no initialize response".into())),
    };
    let legend_len = init
        .pointer("/result/capabilities/semanticTokensProvider/legend/tokenTypes")
        .and_then(|v| v.as_array())
        .map(|a| a.len() as u32)
        .ok_or_else(|| inc("initialize response has no semantic token legend".into()))?;
    let announced = init.pointer("/result/capabilities/positionEncoding").and_then(|v| v.as_str()).unwrap_or("utf-16").to_string();
    let unit = match announced.as_str() { "utf-16" => 0u8, "utf-8" => 1, "utf-32" => 2, _ => 255 };
    if unit == 255 || offered.as_ref().map(|l| announced != "utf-16" && !l.contains(&announced.as_str())).unwrap_or(announced != "utf-16") {
        return Err(("position-encoding".into(), format!("the server announces position encoding {:?}; the client offered {:?}", announced, offered), Value::Null));
    }
    UNIT.with(|u| u.set(unit));
    stats.offers_with_utf8_after_utf16 += offered.as_ref().map(|l| {
        let (a, b) = (l.iter().position(|x| *x == "utf-16"), l.iter().position(|x| *x == "utf-8"));
        matches!((a, b), (Some(a), Some(b)) if a < b) as u64
    }).unwrap_or(0);
    srv.notify("initialized", json!({})).map_err(inc)?;
    // (the last three differ from the first only outside the path: they are different documents all the same)
    let uris = ["file:///a.bas", "file:///b.bas", "file:///dir/c%20d.bas", "file:///a.bas?rev=2", "git:/a.bas?%7B%22ref%22%3A%22HEAD%22%7D", "file:///a.bas#frag"];
    let n_uris = 1 + rng.usize(6);
    let mut latest: Vec<Option<String>> = vec![None; n_uris];
    // document versions the way an editor counts them: 1 at every didOpen, +1 per change (so they start over after a re-open)
    let mut version: Vec<u64> = vec![0; n_uris];
    let n_msgs = 3 + rng.usize(38);
    // keystroke mode: successive prefixes of one program
    let keystroke = rng.chance(1, 4);
    let base_prog = prog::generate(rng, &GenOpts { inputs: true, ..GenOpts::default() }).prog.text();
    let mut typed = 0usize;
    for k in 0..n_msgs {
        // a burst: several notifications written back to back (an editor saving all files, a fast typist),
        // followed by a request that acts as a barrier. Every notification must have been answered.
        if !keystroke && rng.chance(1, 5) {
            let n_burst = 2 + rng.usize(4);
            let mut sent: Vec<(&str, String, Value)> = vec![];
            for j in 0..n_burst {
                let u = rng.usize(n_uris);
                let uri = uris[u];
                let text = if rng.chance(1, 3) { document(rng) } else { format!("10 PRINT \"burst {} {}\" + {}", k, j, rng.s(&["1", "\"x\"", "é", "Q"])) };
                let doc_json = json!({"uri": uri, "text": text.split('\n').collect::<Vec<_>>(), "message_index": k, "burst_index": j, "burst_len": n_burst});
                if latest[u].is_none() {
                    version[u] = 1;
                    srv.notify("textDocument/didOpen", json!({"textDocument": {"uri": uri, "languageId": "basic", "version": 1, "text": text}}))
                } else {
                    version[u] += 1;
                    srv.notify("textDocument/didChange", json!({"textDocument": {"uri": uri, "version": version[u]}, "contentChanges": [{"text": text}]}))
                }
                .map_err(|e| ("server-gone".to_string(), format!("server stopped reading in a burst at document #{}: {}", k, e), doc_json.clone()))?;
                latest[u] = Some(text.clone());
                sent.push((uri, text, doc_json));
            }
            let barrier_uri = sent.last().unwrap().0;
            let id = srv.request("textDocument/semanticTokens/full", json!({"textDocument": {"uri": barrier_uri}})).map_err(inc)?;
            let mut publishes: Vec<Value> = vec![];
            let is_publish = |v: &Value| v.get("method").and_then(|m| m.as_str()) == Some("textDocument/publishDiagnostics");
            loop {
                match srv.rx.recv_timeout(WAIT) {
                    Ok(v) => {
                        if is_publish(&v) {
                            publishes.push(v);
                        } else if v.get("id").and_then(|x| x.as_u64()) == Some(id) {
                            break;
                        }
                    }
                    Err(_) => {
                        return match srv.child.try_wait() {
                            Ok(Some(st)) => Err(("server-died".into(), format!("the server died in a burst of {} notifications ({:?})", n_burst, st), sent.last().unwrap().2.clone())),
                            _ => Err(inc("no response to the barrier request after a burst while the server is alive".into())),
                        };
                    }
                }
            }
            // the barrier has been answered, so every earlier message has been taken off the wire; a server that
            // answers from another thread gets a grace period before a missing answer counts
            let grace = std::time::Instant::now() + Duration::from_secs(3);
            while publishes.len() < n_burst {
                let left = grace.saturating_duration_since(std::time::Instant::now());
                if left.is_zero() {
                    break;
                }
                match srv.rx.recv_timeout(left) {
                    Ok(v) if is_publish(&v) => {
                        publishes.push(v);
                        stats.late_publishes += 1;
                    }
                    Ok(_) => {}
                    Err(_) => break,
                }
            }
            if publishes.len() != n_burst {
                let got_uris: Vec<_> = publishes.iter().map(|p| p.pointer("/params/uri").and_then(|x| x.as_str()).unwrap_or("?").to_string()).collect();
                let sent_uris: Vec<_> = sent.iter().map(|s| s.0).collect();
                return Err(("notification-not-answered".into(),
                    format!("{} notifications were sent back to back for {:?}, a later request has been answered, but only {} publishDiagnostics arrived (for {:?})", n_burst, sent_uris, publishes.len(), got_uris),
                    json!({"burst": sent.iter().map(|s| s.2.clone()).collect::<Vec<_>>()})));
            }
            for (p, (uri, text, doc_json)) in publishes.iter().zip(sent.iter()) {
                if p.pointer("/params/uri").and_then(|x| x.as_str()) != Some(*uri) {
                    return Err(("burst-order".into(), format!("answer for {:?} where the answer for {:?} was due", p.pointer("/params/uri"), uri), doc_json.clone()));
                }
                check_publish(p, text, doc_json, stats)?;
            }
            stats.bursts += 1;
            stats.burst_notifications += n_burst as u64;
            continue;
        }
        let u = rng.usize(n_uris);
        let uri = uris[u];
        let text = if keystroke {
            typed = (typed + 1 + rng.usize(6)).min(base_prog.len());
            while !base_prog.is_char_boundary(typed) {
                typed += 1;
            }
            base_prog[..typed].to_string()
        } else {
            document(rng)
        };
        let doc_json = json!({"uri": uri, "text": text.split('\n').collect::<Vec<_>>(), "message_index": k});
        // an editor may close and re-open a document: the server then sees a second didOpen for a known URI
        let reopen = latest[u].is_some() && rng.chance(1, 4);
        if reopen && rng.coin() {
            srv.notify("textDocument/didClose", json!({"textDocument": {"uri": uri}})).map_err(inc)?;
        }
        if latest[u].is_none() || reopen {
            version[u] = 1;
            srv.notify("textDocument/didOpen", json!({"textDocument": {"uri": uri, "languageId": "basic", "version": 1, "text": text}}))
        } else {
            version[u] += 1;
            srv.notify("textDocument/didChange", json!({"textDocument": {"uri": uri, "version": version[u]}, "contentChanges": [{"text": text}]}))
        }
        .map_err(|e| ("server-gone".to_string(), format!("server stopped reading before document #{}: {}", k, e), doc_json.clone()))?;
        latest[u] = Some(text.clone());
        // the notification is followed at once by a semantic-token request for the same document: a barrier. Messages
        // are taken off the wire in order, so when the response arrives the notification has been read; its answer
        // (publishDiagnostics) must then be there (or follow within the grace period). No verdict rests on a timeout.
        let barrier_id = srv.request("textDocument/semanticTokens/full", json!({"textDocument": {"uri": uri}})).map_err(inc)?;
        let is_my_publish = |v: &Value| v.get("method").and_then(|m| m.as_str()) == Some("textDocument/publishDiagnostics") && v.pointer("/params/uri").and_then(|x| x.as_str()) == Some(uri);
        let mut diag: Option<Value> = None;
        let token_resp: Value;
        loop {
            match srv.rx.recv_timeout(WAIT) {
                Ok(v) => {
                    if is_my_publish(&v) {
                        diag = Some(v);
                    } else if v.get("id").and_then(|x| x.as_u64()) == Some(barrier_id) {
                        token_resp = v;
                        break;
                    }
                }
                Err(_) => {
                    return match srv.child.try_wait() {
                        Ok(Some(st)) => Err(("server-died".into(), format!("the server died on a document ({:?})", st), doc_json)),
                        _ => Err(inc(format!("no response to a semantic token request within {:?} while the server is alive", WAIT))),
                    };
                }
            }
        }
        if diag.is_none() {
            let grace = std::time::Instant::now() + Duration::from_secs(3);
            loop {
                let left = grace.saturating_duration_since(std::time::Instant::now());
                if left.is_zero() {
                    break;
                }
                match srv.rx.recv_timeout(left) {
                    Ok(v) if is_my_publish(&v) => {
                        diag = Some(v);
                        stats.late_publishes += 1;
                        break;
                    }
                    Ok(_) => {}
                    Err(_) => break,
                }
            }
        }
        let Some(diag) = diag else {
            return Err(("notification-not-answered".into(),
                format!("a {} for {} (version {}) was followed by a request that has been answered, but no publishDiagnostics for it arrived", if version[u] == 1 { "didOpen" } else { "didChange" }, uri, version[u]),
                doc_json));
        };
        let n_got = check_publish(&diag, &text, &doc_json, stats)?;
        let lines: Vec<&str> = text.split('\n').collect();
        let (_, want_tokens) = expected(&text);
        let got_nonempty = n_got > 0;
        let non_ascii = text.bytes().any(|b| b >= 0x80);
        if non_ascii {
            stats.non_ascii_docs += 1;
        }
        if got_nonempty && non_ascii {
            nontrivial.push(hash_str(&text));
        }
        // semantic tokens for some documents (always for the latest text of that uri)
        let huge_line = text.split('\n').any(|l| l.len() > 4_000);
        if rng.chance(2, 3) && !huge_line {
            let resp = token_resp;
            stats.token_requests += 1;
            let data: Vec<u64> = resp.pointer("/result/data").and_then(|x| x.as_array()).map(|a| a.iter().map(|v| v.as_u64().unwrap_or(u64::MAX)).collect()).unwrap_or_default();
            if data.len() % 5 != 0 {
                return Err(("token-encoding".into(), format!("semantic token data has {} integers", data.len()), doc_json));
            }
            let mut line = 0u64;
            let mut col = 0u64;
            let mut prev_end: (u64, u64) = (0, 0);
            let mut decoded = vec![];
            for c in data.chunks(5) {
                let (dl, ds, len, ty) = (c[0], c[1], c[2], c[3]);
                if dl > 1 << 31 || ds > 1 << 31 || len > 1 << 31 {
                    return Err(("token-delta".into(), format!("semantic token delta {:?} is out of range (unsigned underflow?)", c), doc_json));
                }
                if dl > 0 {
                    line += dl;
                    col = ds;
                } else {
                    col += ds;
                }
                if (line as usize) >= lines.len() {
                    return Err(("token-line".into(), format!("semantic token on line {} of a {}-line document", line, lines.len()), doc_json));
                }
                let ll = utf16_len(lines[line as usize]) as u64;
                if col + len > ll {
                    return Err(("token-columns".into(), format!("semantic token at line {} columns {}..{} but the line has {} UTF-16 units", line, col, col + len, ll), doc_json));
                }
                if (line, col) < prev_end && !decoded.is_empty() {
                    return Err(("token-overlap".into(), format!("semantic token at {}:{} starts before the previous one ended ({}:{})", line, col, prev_end.0, prev_end.1), doc_json));
                }
                if ty >= legend_len as u64 {
                    return Err(("token-type".into(), format!("semantic token type {} is not in the advertised legend of {}", ty, legend_len), doc_json));
                }
                prev_end = (line, col + len);
                decoded.push((line as u32, col as u32, len as u32, ty as u32));
                stats.tokens += 1;
            }
            if decoded != want_tokens {
                let i = decoded.iter().zip(want_tokens.iter()).position(|(a, b)| a != b).unwrap_or(decoded.len().min(want_tokens.len()));
                return Err(("token-list".into(), format!("semantic tokens differ from the analyzer's token types at #{}: server {:?}, analyzer {:?}", i, decoded.get(i), want_tokens.get(i)), doc_json));
            }
        }
        // now and then also ask for the tokens of ANOTHER open document (not the one analysed last): it must still be
        // answered from that document's own latest text
        if rng.chance(1, 4) {
            let others: Vec<usize> = (0..n_uris).filter(|v| *v != u && latest[*v].as_ref().map(|t| !t.split('\n').any(|l| l.len() > 4_000)).unwrap_or(false)).collect();
            if !others.is_empty() {
                let v = others[rng.usize(others.len())];
                let other_text = latest[v].clone().unwrap();
                let id = srv.request("textDocument/semanticTokens/full", json!({"textDocument": {"uri": uris[v]}})).map_err(inc)?;
                let resp = match srv.wait_for(|m| m.get("id").and_then(|x| x.as_u64()) == Some(id)) {
                    Ok(m) => m,
                    Err(Wait::Died(st)) => return Err(("server-died".into(), format!("the server died on a semantic token request ({})", st), doc_json)),
                    Err(Wait::Timeout) => return Err(inc("no semantic token response while the server is alive".into())),
                };
                let data: Vec<u64> = resp.pointer("/result/data").and_then(|x| x.as_array()).map(|a| a.iter().map(|v| v.as_u64().unwrap_or(u64::MAX)).collect()).unwrap_or_default();
                let (mut line, mut col) = (0u64, 0u64);
                let mut decoded = vec![];
                for c in data.chunks(5) {
                    if c.len() < 5 {
                        break;
                    }
                    if c[0] > 0 {
                        line = line.saturating_add(c[0]);
                        col = c[1];
                    } else {
                        col = col.saturating_add(c[1]);
                    }
                    decoded.push((line as u32, col as u32, c[2] as u32, c[3] as u32));
                }
                let (_, want) = expected(&other_text);
                stats.other_document_token_requests += 1;
                if decoded != want {
                    let i = decoded.iter().zip(want.iter()).position(|(a, b)| a != b).unwrap_or(decoded.len().min(want.len()));
                    return Err(("token-list-other-document".into(),
                        format!("tokens requested for {} (not the document analysed last, which was {}) differ from the analyzer's token types for ITS latest text at #{}: server {:?}, analyzer {:?}", uris[v], uri, i, decoded.get(i), want.get(i)),
                        json!({"uri": uris[v], "its_text": other_text.split('\n').collect::<Vec<_>>(), "document_analysed_last": doc_json})));
                }
            }
        }
    }
    // orderly shutdown
    let id = srv.request("shutdown", Value::Null).map_err(inc)?;
    match srv.wait_for(|v| v.get("id").and_then(|x| x.as_u64()) == Some(id)) {
        Ok(_) => {}
        Err(Wait::Died(st)) => return Err(("died-at-shutdown".into(), format!("server died at shutdown: {}", st), Value::Null)),
        Err(Wait::Timeout) => return Err(inc("no shutdown response".into())),
    }
    srv.notify("exit", Value::Null).map_err(inc)?;
    let deadline = std::time::Instant::now() + WAIT;
    loop {
        match srv.child.try_wait() {
            Ok(Some(st)) => {
                if !st.success() {
                    return Err(("exit-status".into(), format!("server exited with {:?} after shutdown/exit", st), Value::Null));
                }
                break;
            }
            Ok(None) => {
                if std::time::Instant::now() > deadline {
                    let _ = srv.child.kill();
                    let _ = srv.child.wait();
                    return Err(inc("server did not exit after shutdown/exit".into()));
                }
                std::thread::sleep(Duration::from_millis(5));
            }
            Err(e) => return Err(inc(format!("wait failed: {}", e))),
        }
    }
    Ok(())
}

fn run_case(ctx: &Ctx, index: u64, rep: &mut Report) {
    let mut rng = ctx.rng(index);
    let mut stats = Stats { other_document_token_requests: 0, offers_with_utf8_after_utf16: 0, late_publishes: 0, max_diags: 0, bursts: 0, burst_notifications: 0, docs: 0, diags: 0, tokens: 0, non_ascii_docs: 0, token_requests: 0 };
    let mut nontrivial = vec![];
    let r = session(&mut rng, &mut stats, &mut nontrivial);
    rep.add("documents", stats.docs);
    rep.add("diagnostics_checked", stats.diags);
    rep.add("semantic_tokens_checked", stats.tokens);
    rep.add("semantic_token_requests", stats.token_requests);
    rep.add("non_ascii_documents", stats.non_ascii_docs);
    rep.add("bursts", stats.bursts);
    rep.add("token_requests_for_another_open_document", stats.other_document_token_requests);
    rep.add("sessions_offering_utf8_after_utf16", stats.offers_with_utf8_after_utf16);
    rep.add("burst_notifications", stats.burst_notifications);
    rep.add("tolerated.publish_after_barrier", stats.late_publishes);
    rep.max("max_diagnostics_one_document", stats.max_diags);
    rep.evaluations += stats.docs.saturating_sub(1);
    for h in nontrivial {
        rep.nontrivial(h);
    }
    match r {
        Ok(()) => rep.count("sessions_completed"),
        Err((sig, why, doc)) => {
            if sig == "INCONCLUSIVE" {
                rep.inconclusive.push(why);
            } else {
                ctx.violation(rep, "C20", &sig, index, why, doc);
            }
        }
    }
    if rep.want_sample() && index % 97 == 0 {
        rep.sample(json!({"session": index, "documents": stats.docs, "diagnostics": stats.diags, "tokens": stats.tokens}));
    }
}

fn finalize(_tier: Tier, rep: &mut Report) -> Finalize {
    Finalize {
        rule: "A case is one JSON-RPC session with the real abasic-lsp binary (initialize with one of seven offers of position encodings; positions are checked in the unit the server announces, UTF-16 if it announces none, initialized, 3-40 didOpen / didChange notifications over 1-3 URIs, semanticTokens/full after half of them, shutdown, exit); a fifth of the steps are bursts of 2-5 notifications written back to back and followed by a request as a barrier: once the barrier is answered every notification of the burst must have been answered, in order, each with the diagnostics of its own text (a late answer within 3 s is tolerated and tallied). Documents: C05's line-kind shapes, non-ASCII strings / comments / DATA before later tokens, arbitrary text, token soup, generated programs (LF or CRLF), deep nesting, empty documents, listings of 60-460 lines with a message on almost every line, and keystroke-by-keystroke prefixes of a program. \
               Checked per document: a publishDiagnostics for that URI arrives and the child stays alive; every range lies on an existing line within its UTF-16 length; the multiset of (severity, message, line, start, end) equals the in-process analyzer's messages converted by an independent byte->UTF-16 model; decoded semantic tokens are ordered, non-overlapping, within their line, typed within the advertised legend, and equal the analyzer's token types; exit status 0 after shutdown/exit. \
               Evaluations count documents. Non-trivial: a document with >= 1 diagnostic and a non-ASCII character. Distinct by hash of the document text.".into(),
        floors: vec![
            ("sessions_completed".into(), 300),
            ("documents".into(), 5_000),
            ("diagnostics_checked".into(), 10_000),
            ("semantic_tokens_checked".into(), 50_000),
            ("non_ascii_documents".into(), 1_000),
            ("bursts".into(), 500),
            ("max_diagnostics_one_document".into(), 150),
            ("distinct_nontrivial".into(), 500),
        ],
        assumptions: vec![
            "the server is the debug build of /repo's abasic-lsp (hooks off) on stdio; a response that does not arrive within 30 s while the child is alive is inconclusive, not a violation".into(),
            "documents contain no lone CR (LSP clients would count it as a line break, the server does not)".into(),
        ],
        exhaustive: false,
        extras: json!({}),
    }
}
