//! One module per property: workload + oracle + evidence.

use crate::runner::Check;

pub mod c18;

pub fn all() -> Vec<Check> {
    vec![c18::check()]
}

pub fn probe_main(_args: &[String]) -> i32 {
    2
}
