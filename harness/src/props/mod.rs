//! One module per property: workload + oracle + evidence.

use crate::runner::Check;

pub mod c01;
pub mod c02;
pub mod c03;
pub mod c04;
pub mod c05;
pub mod c06;
pub mod c07;
pub mod c08;
pub mod c09;
pub mod c10;
pub mod c11;
pub mod c17;
pub mod c12;
pub mod c13;
pub mod c14;
pub mod c15;
pub mod c16;
pub mod c18;
pub mod c19;
pub mod c20;

pub fn all() -> Vec<Check> {
    vec![c01::check(), c02::check(), c03::check(), c04::check(), c05::check(), c06::check(), c07::check(), c08::check(), c09::check(), c10::check(), c11::check(), c17::check(), c12::check(), c13::check(), c14::check(), c15::check(), c16::check(), c18::check(), c19::check(), c20::check()]
}

pub fn probe_main(args: &[String]) -> i32 {
    c01::probe_main(args)
}
