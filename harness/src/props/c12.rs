//! C12 — spacing and letter case outside literal text never change meaning.
//!
//! Metamorphic oracle on the real tokenizer (hook): tokens(line) == tokens(perturb(line)) as sequences of
//! token Debug strings (or: both fail with the same error kind after the same tokens). The positions at
//! which a perturbation is allowed are known by construction of the line (pieces with protection flags),
//! not inferred from the tokenizer's own output.

use crate::drive::Session;
use crate::gen::toks::{self, Piece};
use crate::report::Report;
use crate::runner::{Check, Ctx, Finalize, Tier, Workload};
use crate::util::{hash_str, Rng};
use abasic_core::verif_hooks::tokenize;
use serde_json::json;

pub fn check() -> Check {
    Check { id: "C12", plan, run_case, finalize }
}

const BATCH: u64 = 1024;

fn enum_len(tier: Tier) -> u32 {
    tier.pick(3, 4)
}

fn plan(tier: Tier) -> Vec<Workload> {
    let n = toks::atoms(true).len() as u64;
    let total = toks::enumeration_size(n, enum_len(tier));
    vec![
        Workload::new("enum", (total + BATCH - 1) / BATCH),
        Workload::new("random", tier.pick(300_000, 3_000_000) / BATCH),
        Workload::new("data", tier.pick(200_000, 2_000_000) / BATCH),
        Workload::new("listing", tier.pick(60_000, 600_000) / BATCH),
    ]
}

/// canonical observable of a tokenization: token debug strings, or tokens-before + error kind
fn observe_tokens(line: &str) -> Result<Vec<String>, String> {
    match crate::util::catch(|| tokenize(line, 0)) {
        Err(m) => Err(format!("PANIC {}", m)),
        Ok(Ok(v)) => Ok(v.into_iter().map(|t| t.debug).collect()),
        Ok(Err(e)) => {
            let mut v: Vec<String> = e.tokens_before.into_iter().map(|t| t.debug).collect();
            v.push(format!("<error {}>", e.kind));
            Ok(v)
        }
    }
}

struct Stats {
    perturbations: u64,
    adjacent_multichar: bool,
}

fn flip_case(b: u8) -> u8 {
    if b.is_ascii_lowercase() {
        b.to_ascii_uppercase()
    } else {
        b.to_ascii_lowercase()
    }
}

/// Run every single-edit perturbation (+ crunched, spaced, a few random multi-edits) of one line.
fn check_pieces(pieces: &[Piece], rng: &mut Rng) -> Result<Stats, (String, String, String)> {
    let text = toks::join(pieces);
    let base = match observe_tokens(&text) {
        Ok(v) => v,
        Err(m) => return Err((text.clone(), text.clone(), m)),
    };
    let m = toks::mask(pieces);
    let bytes = text.as_bytes();
    let mut stats = Stats { perturbations: 0, adjacent_multichar: false };
    let mut try_variant = |variant: String, what: &str, stats: &mut Stats| -> Result<(), (String, String, String)> {
        if variant == text {
            return Ok(());
        }
        stats.perturbations += 1;
        match observe_tokens(&variant) {
            Ok(v) if v == base => Ok(()),
            Ok(v) => Err((text.clone(), variant, format!("{}: tokens {:?} became {:?}", what, base, v))),
            Err(mm) => Err((text.clone(), variant, format!("{}: {}", what, mm))),
        }
    };
    // single insertions
    for pos in 0..=bytes.len() {
        if !m.insert_ok[pos] {
            continue;
        }
        for blank in [" ", "\t"] {
            let mut v = String::with_capacity(text.len() + 1);
            v.push_str(&text[..pos]);
            v.push_str(blank);
            v.push_str(&text[pos..]);
            try_variant(v, &format!("inserting {:?} at byte {}", blank, pos), &mut stats)?;
        }
        // inside or next to a multi-character token?
        if pos > 0 && pos < bytes.len() && bytes[pos - 1].is_ascii_alphanumeric() && bytes[pos].is_ascii_alphanumeric() {
            stats.adjacent_multichar = true;
        }
    }
    // long runs of blanks at two random unprotected positions (length boundaries of small integer types and of
    // any fixed look-ahead window)
    let ok_positions: Vec<usize> = (0..=bytes.len()).filter(|p| m.insert_ok[*p]).collect();
    if !ok_positions.is_empty() {
        for _ in 0..2 {
            let pos = ok_positions[rng.usize(ok_positions.len())];
            let n = if rng.chance(1, 40) { *rng.pick(&[16_384usize, 20_000, 65_536]) } else { *rng.pick(&[16usize, 17, 40, 127, 128, 255, 256, 257, 300, 1000]) };
            let run = if rng.chance(1, 4) { "\t".repeat(n) } else { " ".repeat(n) };
            let mut v = String::with_capacity(text.len() + n);
            v.push_str(&text[..pos]);
            v.push_str(&run);
            v.push_str(&text[pos..]);
            try_variant(v, &format!("inserting {} blanks at byte {}", n, pos), &mut stats)?;
        }
    }
    // single deletions of blanks, single case flips
    for i in 0..bytes.len() {
        if !m.edit_ok[i] {
            continue;
        }
        if toks::is_blank(bytes[i]) {
            let mut v = String::with_capacity(text.len());
            v.push_str(&text[..i]);
            v.push_str(&text[i + 1..]);
            try_variant(v, &format!("deleting the blank at byte {}", i), &mut stats)?;
        } else if bytes[i].is_ascii_alphabetic() {
            let mut raw = bytes.to_vec();
            raw[i] = flip_case(raw[i]);
            let v = String::from_utf8(raw).unwrap();
            try_variant(v, &format!("flipping the case of byte {}", i), &mut stats)?;
        }
    }
    try_variant(toks::crunched(pieces), "removing every unprotected blank", &mut stats)?;
    try_variant(toks::spaced(pieces), "putting a blank at every unprotected position", &mut stats)?;
    // random multi-edits
    for _ in 0..3 {
        let mut out: Vec<u8> = vec![];
        for i in 0..=bytes.len() {
            if m.insert_ok[i] && rng.chance(1, 4) {
                out.push(if rng.coin() { b' ' } else { b'\t' });
            }
            if i < bytes.len() {
                let b = bytes[i];
                if m.edit_ok[i] && toks::is_blank(b) && rng.chance(1, 3) {
                    continue;
                }
                if m.edit_ok[i] && b.is_ascii_alphabetic() && rng.chance(1, 3) {
                    out.push(flip_case(b));
                } else {
                    out.push(b);
                }
            }
        }
        if let Ok(v) = String::from_utf8(out) {
            try_variant(v, "random multi-edit", &mut stats)?;
        }
    }
    Ok(stats)
}

fn handle(ctx: &Ctx, rep: &mut Report, index: u64, pieces: &[Piece], rng: &mut Rng, source: &str) {
    match check_pieces(pieces, rng) {
        Ok(st) => {
            rep.count("lines");
            rep.add("perturbations", st.perturbations);
            if st.adjacent_multichar && st.perturbations > 0 {
                rep.nontrivial(hash_str(&toks::join(pieces)));
            }
        }
        Err((orig, variant, why)) => {
            // D11 family: a blank between a DATA item and the end of the statement adds an empty item
            let sig = if why.contains("Data(") { "data-blank" } else if why.contains("PANIC") { "panic" } else { "tokens-differ" };
            ctx.violation(rep, "C12", sig, index,
                format!("line {:?} vs {:?}: {}", orig, variant, why),
                json!({"original": orig, "perturbed": variant, "source": source}));
        }
    }
}

fn data_line(rng: &mut Rng) -> Vec<Piece> {
    let pool: &[(&str, bool)] = &[
        ("a", false), ("a b", false), ("hello world", false), ("Q r", true), ("", true), ("1", false), ("-2.5", false),
        (".5", false), ("é ü", false), ("x:y", true), ("p,q", true), ("  pad  ", true), ("IF", false), ("MiXed", false),
        ("007", false), ("1e3", false),
    ];
    let mut v = vec![];
    if rng.chance(1, 3) {
        v.push(toks::plain(rng.s(&["PRINT 1", "A=1", "REStore", "?X$"])));
        v.push(toks::plain(rng.s(&[":", " : "])));
    }
    let cnt = 1 + rng.usize(4);
    let mut items = vec![];
    for _ in 0..cnt {
        items.push(*rng.pick(pool));
    }
    v.extend(toks::data_pieces(&items, rng.s(&["", " ", "\t"]), rng.s(&["", " "]), rng.s(&["", " ", "  "]), ""));
    if rng.coin() {
        v.push(toks::plain(":"));
        v.push(toks::plain(rng.s(&["PRINT 2", " goto 10", "", "DATA 5"])));
    }
    v
}

fn run_case(ctx: &Ctx, index: u64, rep: &mut Report) {
    let mut rng = ctx.rng(index);
    match ctx.workload.as_str() {
        "enum" => {
            let atoms = toks::atoms(true);
            let n = atoms.len() as u64;
            let maxlen = enum_len(ctx.tier);
            let total = toks::enumeration_size(n, maxlen);
            let lo = index * BATCH;
            let hi = (lo + BATCH).min(total);
            for e in lo..hi {
                let seq = toks::enumeration_sequence(e, n, maxlen);
                let refs: Vec<&Vec<Piece>> = seq.iter().map(|i| &atoms[*i]).collect();
                let pieces = toks::sequence_to_pieces(&refs);
                handle(ctx, rep, index, &pieces, &mut rng, "enum");
                if e == lo && index % 499 == 0 {
                    rep.sample(json!({"workload":"enum","line":toks::join(&pieces),"crunched":toks::crunched(&pieces),"spaced":toks::spaced(&pieces)}));
                }
            }
            rep.evaluations += (hi - lo).saturating_sub(1);
            rep.add("enum.lines", hi - lo);
        }
        "random" => {
            for _ in 0..BATCH {
                let pieces = toks::random_pieces(&mut rng, 12);
                handle(ctx, rep, index, &pieces, &mut rng, "random");
            }
            rep.evaluations += BATCH - 1;
        }
        "data" => {
            for k in 0..BATCH {
                let pieces = data_line(&mut rng);
                handle(ctx, rep, index, &pieces, &mut rng, "data");
                if k == 0 && index < 2 {
                    rep.sample(json!({"workload":"data","line":toks::join(&pieces),"spaced":toks::spaced(&pieces)}));
                }
            }
            rep.evaluations += BATCH - 1;
        }
        "listing" => {
            // through the interpreter: the stored line lists identically whatever the spelling
            for _ in 0..BATCH {
                let pieces = if rng.coin() { toks::random_pieces(&mut rng, 8) } else { data_line(&mut rng) };
                let text = toks::join(&pieces);
                let variants = [toks::crunched(&pieces), toks::spaced(&pieces)];
                let list_of = |stmt: &str| -> Option<String> {
                    let mut s = Session::new();
                    s.check_invariants = false;
                    let r = s.run_line(&format!("10 {}", stmt), 5);
                    if !r.res.is_ok() {
                        return Some(format!("<{}>", r.res.outcome().0));
                    }
                    Some(s.run_line("LIST", 5).printed())
                };
                let base = list_of(&text);
                for v in variants.iter() {
                    if list_of(v) != base {
                        ctx.violation(rep, "C12", "listing-differs", index,
                            format!("entering `10 {}` lists as {:?} but `10 {}` lists as {:?}", text, base, v, list_of(v)),
                            json!({"original": text, "perturbed": v}));
                    }
                    rep.count("listing.pairs");
                }
            }
            rep.evaluations += BATCH - 1;
        }
        other => panic!("unknown workload {}", other),
    }
}

fn finalize(tier: Tier, rep: &mut Report) -> Finalize {
    let n = toks::atoms(true).len() as u64;
    let total = toks::enumeration_size(n, enum_len(tier));
    let exhaustive = rep.get("enum.lines") == total;
    Finalize {
        rule: format!(
            "A case is one line together with ALL of its single-edit perturbations (every insertion of a space or a tab at every unprotected byte position, every deletion of an unprotected blank, every case flip of an unprotected letter), its fully crunched and fully letter-spaced spellings and 3 random multi-edits; \
             enum: all concatenations of 1..={} atoms of a {}-atom alphabet; random/data: generated lines; listing: the same through `10 <text>` + LIST on a real interpreter. \
             Protected positions (inside string literals, REM text, DATA item interiors, anything glued to them) are known from the construction of the line. \
             Non-trivial: at least one perturbation was applied between two alphanumeric bytes (inside a keyword, identifier or numeral). Distinct by hash of the original line (lower bound: capped per worker).",
            enum_len(tier), n),
        floors: vec![
            ("lines".into(), 100_000),
            ("perturbations".into(), 2_000_000),
            ("listing.pairs".into(), 10_000),
            ("distinct_nontrivial".into(), 20_000),
        ],
        assumptions: vec![
            "blank = space or tab for insertions (the property's wording); deletions also cover CR and FF, which the tokenizer treats as blanks".into(),
            "protection flags come from the generator's knowledge of the line, so only generated shapes are covered".into(),
        ],
        exhaustive,
        extras: json!({"enumeration": {"atoms": n, "max_len": enum_len(tier), "sequences": total, "complete": exhaustive}}),
    }
}
