//! C05 — static analysis terminates on every file and yields well-formed diagnostics.
//!
//! Pure contract monitor over executions of SourceFileAnalyzer::analyze: no panic, one token list per file
//! line, every diagnostic maps to a source range on the line it names, within bounds and on char boundaries,
//! per-line token ranges ordered and non-overlapping.

use crate::gen::prog::{self, GenOpts};
use crate::gen::{text, toks};
use crate::report::Report;
use crate::runner::{Check, Ctx, Finalize, Tier, Workload};
use crate::util::{hash_str, Rng};
use abasic_core::{DiagnosticMessage, SourceFileAnalyzer};
use serde_json::json;

pub fn check() -> Check {
    Check { id: "C05", plan, run_case, finalize }
}

const BATCH: u64 = 512;
const DEPTHS: &[u64] = &[64, 1000, 100_000];

/// line kinds for the exhaustive structured enumeration; `{n}` is replaced by a line number
pub const KINDS: &[&str] = &[
    "{n} X = 1",                    // numbered valid
    "{n} PRINT X$ + 1",             // numbered ill-typed
    "PRINT 1",                      // unnumbered
    "",                             // blank
    "   ",                          // whitespace only
    "{n}",                          // emptied
    "{n}   ",                       // emptied with blanks
    "{n} PRINT \"",                 // untokenizable: unterminated string
    "{n} é",                        // untokenizable: illegal multi-byte character
    "{n} PRINT 1 +",                // tokenizes, analysis error at end of line
    "{n} PRINT \"é\" + 1",          // non-ASCII before an error
    "{n} GOTO 999",                 // jump to a missing line
    "{n} GOSUB {n}",                // jump to itself
    "{n} Y = Q",                    // undefined symbol warning
    "{n} FOR I = 1 TO 2 : NEXT I",
    "{n} DEF FNA(X) = X : PRINT FNA(1)",
    "{n} DATA a, \"é\", 1 : READ A$",
    "{n} REM é ü",
    "{n} IF X THEN {n} ELSE PRINT \"e\"",
    "{n} INPUT Z$ : DIM M(3)\r",    // CR ending
    "{n} 1.2.3",                    // invalid number
    "{n} PRINT %",                  // illegal ASCII character
    "{n} PRINT \"é\" ñ",            // illegal multi-byte character after multi-byte text
    "{n} PRINT \"ñ\";%é",           // illegal ASCII character followed by a multi-byte one
    "{n} DATA ça, là: 😊",          // illegal 4-byte character after DATA with multi-byte items
    "{n}² PRINT 2",                 // digits continued by a non-ASCII numeric character
    "１０ PRINT 1",                  // fullwidth digits where the line number would be
    "½ cup of sugar",               // a vulgar fraction first
    " {n}٣ X = 1",                  // indentation, digits, an Arabic-Indic digit
    "\t",                           // tab only
    "{n} PRINT \"X\"\x0c",           // form feed (a BASIC blank) at the end of a line
    "{n}\x0c",                       // line number followed by a form feed only
    "{n} X = \x0c1 : Y$ = \x0c\"s\"", // form feed in front of literals
    "{n} REM\x0c",
    "{n} X = \"😀\" : Y = 😀",      // 4-byte characters inside and outside a string
];

fn plan(tier: Tier) -> Vec<Workload> {
    let k = KINDS.len() as u64;
    // sequences of 1..=3 kinds, each line numbered 10 or 20 (2^len assignments)
    let total: u64 = (1..=3u32).map(|l| k.pow(l) * 2u64.pow(l)).sum();
    vec![
        Workload::new("structured", (total + BATCH - 1) / BATCH),
        Workload::new("random_structured", tier.pick(300_000, 6_000_000) / BATCH),
        Workload::new("text", tier.pick(200_000, 4_000_000) / BATCH),
        Workload::new("programs", tier.pick(100_000, 2_000_000) / BATCH),
        // very long files with a message on (almost) every line
        Workload::new("huge", tier.pick(64, 640)),
        // deep nesting through the analyzer, each probe in a child process (an abort cannot be caught in-process)
        Workload::new("depth", (crate::props::c01::CONSTRUCTS.len() * DEPTHS.len()) as u64),
    ]
}

struct Stats {
    diagnostics: u64,
    tokens: u64,
}

/// Ok(stats) or Err((signature, explanation))
pub fn check_file(text: &str) -> Result<(u64, u64, u64), (String, String)> {
    let analyzer = match crate::util::catch(|| SourceFileAnalyzer::analyze(text.to_string())) {
        Ok(a) => a,
        Err(m) => return Err((format!("panic:{}", m.rsplit(" @ ").next().unwrap_or("")), format!("analyze panicked: {}", m))),
    };
    let lines: Vec<&str> = text.split('\n').collect();
    let tt = analyzer.token_types();
    if tt.len() != lines.len() {
        return Err(("token-list-count".into(), format!("{} token lists for {} file lines", tt.len(), lines.len())));
    }
    let mut st = Stats { diagnostics: 0, tokens: 0 };
    for (li, toks) in tt.iter().enumerate() {
        let line = lines[li];
        let mut prev_end = 0usize;
        for (ti, (ty, r)) in toks.iter().enumerate() {
            st.tokens += 1;
            if r.start > r.end || r.end > line.len() {
                return Err(("token-range-bounds".into(), format!("file line {} token {} ({:?}) range {:?} outside 0..{}", li, ti, ty, r, line.len())));
            }
            if !line.is_char_boundary(r.start) || !line.is_char_boundary(r.end) {
                return Err(("token-range-charboundary".into(), format!("file line {} token {} ({:?}) range {:?} splits a character", li, ti, ty, r)));
            }
            if r.start < prev_end {
                return Err(("token-range-order".into(), format!("file line {} token {} ({:?}) range {:?} overlaps the previous token (end {})", li, ti, ty, r, prev_end)));
            }
            prev_end = r.end;
        }
    }
    let mut errors = 0u64;
    let map = analyzer.source_file_map();
    for m in analyzer.messages() {
        st.diagnostics += 1;
        let named = match m {
            DiagnosticMessage::Warning(l, _, _) => *l,
            DiagnosticMessage::Error(l, _) => {
                errors += 1;
                *l
            }
        };
        let mapped = match crate::util::catch(|| map.map_to_source(m)) {
            Ok(x) => x,
            Err(p) => return Err(("map-panic".into(), format!("map_to_source panicked: {}", p))),
        };
        let Some((l, r)) = mapped else {
            return Err(("unmappable".into(), format!("diagnostic {:?} cannot be mapped to a source position", brief(m))));
        };
        if l != named {
            return Err(("wrong-line".into(), format!("diagnostic {:?} names file line {} but maps to line {}", brief(m), named, l)));
        }
        if l >= lines.len() {
            return Err(("line-out-of-file".into(), format!("diagnostic {:?} maps to file line {} of {}", brief(m), l, lines.len())));
        }
        let line = lines[l];
        if r.start > r.end || r.end > line.len() {
            return Err(("range-bounds".into(), format!("diagnostic {:?} range {:?} outside line {} ({} bytes)", brief(m), r, l, line.len())));
        }
        if !line.is_char_boundary(r.start) || !line.is_char_boundary(r.end) {
            return Err(("range-charboundary".into(), format!("diagnostic {:?} range {:?} splits a character of line {:?}", brief(m), r, line)));
        }
    }
    Ok((st.diagnostics, st.tokens, errors))
}

fn brief(m: &DiagnosticMessage) -> String {
    match m {
        DiagnosticMessage::Warning(l, _, s) => format!("warning@{}: {}", l, s),
        DiagnosticMessage::Error(l, e) => format!("error@{}: {}", l, e),
    }
}

fn observe(ctx: &Ctx, rep: &mut Report, index: u64, text: &str, source: &str) {
    match check_file(text) {
        Ok((diags, tokens, errors)) => {
            rep.count("files");
            rep.add("diagnostics_checked", diags);
            rep.add("token_ranges_checked", tokens);
            rep.add("error_diagnostics", errors);
            let numbered = text.split('\n').filter(|l| abasic_core::verif_hooks::parse_line_number(l).is_some()).count();
            if diags >= 1 && numbered >= 2 {
                rep.nontrivial(hash_str(text));
            }
        }
        Err((sig, why)) => {
            ctx.violation(rep, "C05", &sig, index, format!("{} — file {:?}", why, crate::util::truncate(text, 400)), json!({"file": text.split('\n').collect::<Vec<_>>(), "source": source}));
        }
    }
}

fn random_structured(rng: &mut Rng) -> String {
    let n = 1 + rng.usize(60);
    // (with the numbers at which a table sized for the classic Applesoft range 0..63999 / 0..65535 begins and ends)
    let nums = [10u64, 10, 20, 20, 30, 40, 5, 18446744073709551615, 0, 63998, 63999, 64000, 65535, 65536, 4294967295, 4294967296];
    let mut lines = vec![];
    for _ in 0..n {
        let k = match rng.below(10) {
            0..=5 => rng.s(KINDS).to_string(),
            6 => format!("{{n}} {}", toks::join(&toks::random_pieces(rng, 8))),
            7 => text::random_line(rng, 10).replace('\n', " "),
            8 => format!("{{n}} PRINT \"{}\" + {}", rng.s(&["é", "😀😀", "ab", "中文"]), rng.s(&["1", "\"x\"", "", "+"])),
            _ => format!("{{n}} REM {}", text::random_line(rng, 6).replace('\n', " ")),
        };
        lines.push(k.replace("{n}", &rng.pick(&nums).to_string()));
    }
    lines.join(if rng.chance(1, 10) { "\r\n" } else { "\n" })
}

fn run_case(ctx: &Ctx, index: u64, rep: &mut Report) {
    let mut rng = ctx.rng(index);
    match ctx.workload.as_str() {
        "structured" => {
            let k = KINDS.len() as u64;
            let sizes: Vec<u64> = (1..=3u32).map(|l| k.pow(l) * 2u64.pow(l)).collect();
            let total: u64 = sizes.iter().sum();
            let lo = index * BATCH;
            let hi = (lo + BATCH).min(total);
            for e in lo..hi {
                let mut rest = e;
                let mut len = 1u32;
                for (i, s) in sizes.iter().enumerate() {
                    if rest < *s {
                        len = i as u32 + 1;
                        break;
                    }
                    rest -= s;
                }
                let mut lines = vec![];
                for _ in 0..len {
                    let kind = (rest % k) as usize;
                    rest /= k;
                    let n = if rest % 2 == 0 { "10" } else { "20" };
                    rest /= 2;
                    lines.push(KINDS[kind].replace("{n}", n));
                }
                let text = lines.join("\n");
                observe(ctx, rep, index, &text, "structured");
                if e == lo && index % 97 == 0 {
                    rep.sample(json!({"workload":"structured","file": lines}));
                }
            }
            rep.evaluations += (hi - lo).saturating_sub(1);
            rep.add("structured.files", hi - lo);
        }
        "random_structured" => {
            for _ in 0..BATCH {
                let t = random_structured(&mut rng);
                observe(ctx, rep, index, &t, "random_structured");
            }
            rep.evaluations += BATCH - 1;
        }
        "huge" => {
            let n = 900 + rng.usize(1700);
            let mut lines = Vec::with_capacity(n);
            for k in 0..n {
                lines.push(match rng.below(8) {
                    0 => format!("PRINT {}", k),
                    1 => format!("{}", 10 + (k % 50)),
                    2 => format!("{} PRINT \"", k + 1),
                    3 => format!("{} é", k + 1),
                    4 => format!("{} X = \"s\"", k + 1),
                    5 => "   ".to_string(),
                    6 => format!("{} PRINT U{}", 10 + (k % 50), k),
                    _ => format!("stray text {}", k),
                });
            }
            let file = lines.join("\n");
            rep.count("huge.files");
            match check_file(&file) {
                Ok((d, t, _)) => {
                    rep.add("diagnostics_checked", d);
                    rep.add("tokens_checked", t);
                    rep.max("max_diagnostics_one_file", d);
                }
                Err((sig, why)) => {
                    ctx.violation(rep, "C05", &sig, index, format!("{} — a file of {} lines with a message on almost every line", why, n), json!({"lines": n, "first_lines": lines.iter().take(8).collect::<Vec<_>>(), "note": "regenerate with --replay"}));
                }
            }
        }
        "text" => {
            for _ in 0..BATCH {
                let n = rng.usize(12);
                let t: Vec<String> = (0..n).map(|_| text::random_line(&mut rng, 20)).collect();
                observe(ctx, rep, index, &t.join("\n"), "text");
            }
            rep.evaluations += BATCH - 1;
        }
        "depth" => {
            let constructs = crate::props::c01::CONSTRUCTS;
            let construct = constructs[(index as usize) / DEPTHS.len()];
            let depth = DEPTHS[(index as usize) % DEPTHS.len()];
            let exe = std::env::current_exe().expect("current exe");
            let out = std::process::Command::new(exe)
                .args(["probe", construct, &depth.to_string(), "2048", "analyzer"])
                .env("RUST_BACKTRACE", "0")
                .stdin(std::process::Stdio::null())
                .stderr(std::process::Stdio::piped())
                .output();
            match out {
                Err(e) => rep.inconclusive.push(format!("cannot spawn analyzer depth probe: {}", e)),
                Ok(o) => {
                    use std::os::unix::process::ExitStatusExt;
                    let stdout = String::from_utf8_lossy(&o.stdout).to_string();
                    if o.status.success() && stdout.contains("RESULT") && !stdout.contains("PANIC") {
                        rep.count("depth.probes_returned");
                    } else {
                        ctx.violation(rep, "C05", &format!("analyzer-depth:{}", construct), index,
                            format!("analysing `{}` nested {} deep killed the process or panicked: exit={:?} signal={:?} {}", construct, depth, o.status.code(), o.status.signal(),
                                crate::util::truncate(String::from_utf8_lossy(&o.stderr).trim(), 200)),
                            json!({"construct": construct, "depth": depth}));
                    }
                }
            }
            rep.nontrivial(hash_str(&format!("depth|{}|{}", construct, depth)));
        }
        "programs" => {
            for _ in 0..BATCH {
                let g = prog::generate(&mut rng, &GenOpts { inputs: true, stops: true, ..GenOpts::default() });
                let mut t = g.prog.text();
                if rng.chance(1, 3) {
                    // an editor session: cut the text at a random byte (char boundary)
                    let mut cut = rng.usize(t.len() + 1);
                    while !t.is_char_boundary(cut) {
                        cut -= 1;
                    }
                    t.truncate(cut);
                }
                observe(ctx, rep, index, &t, "programs");
            }
            rep.evaluations += BATCH - 1;
        }
        other => panic!("unknown workload {}", other),
    }
}

fn finalize(_tier: Tier, rep: &mut Report) -> Finalize {
    let k = KINDS.len() as u64;
    let total: u64 = (1..=3u32).map(|l| k.pow(l) * 2u64.pow(l)).sum();
    let exhaustive = rep.get("structured.files") == total;
    Finalize {
        rule: format!(
            "structured: every sequence of 1..=3 lines drawn from {} line kinds (numbered valid / ill-typed / unnumbered / blank / emptied `10` / untokenizable (unterminated string, illegal multi-byte character, invalid number) / analysis error at end of line / non-ASCII before an error / missing jump target / every statement family / CR ending), each numbered 10 or 20, so that duplicates where the second definition is empty or untokenizable are all present; \
             random_structured: up to 60 such lines plus token soup and arbitrary text, line numbers incl. 2^64-1, LF or CRLF; text: arbitrary UTF-8 files; programs: G-prog programs, a third cut at a random byte (what an editor sends). Checked per file: no panic, one token list per line, token ranges ordered/non-overlapping/in bounds/on char boundaries, every diagnostic maps to a range on the line it names, in bounds and on char boundaries. \
             Non-trivial: the file has >= 1 diagnostic and >= 2 numbered lines. Distinct by hash of the file text (lower bound: capped per worker).", k),
        floors: vec![
            ("files".into(), 100_000),
            ("diagnostics_checked".into(), 200_000),
            ("error_diagnostics".into(), 50_000),
            ("token_ranges_checked".into(), 1_000_000),
            ("distinct_nontrivial".into(), 30_000),
            ("depth.probes_returned".into(), 60),
        ],
        assumptions: vec!["deep nesting (native stack) through the analyzer is probed in C01's child-process depth grid".into()],
        exhaustive,
        extras: json!({"structured_enumeration": {"kinds": k, "files": total, "complete": exhaustive}}),
    }
}
