//! C14 — LIST output reloads to the same program.
//!
//! Metamorphic oracle on real interpreters: A holds the entered lines, B is fresh and receives the lines LIST(A)
//! prints. LIST(A) == LIST(B) (fixed point), every listed line is accepted, the token sequences of the stored
//! lines are equal (tokenizer hook), RUN gives equal transcripts and the DATA stream READ sees is equal.

use crate::drive::{Op, Out, Session};
use crate::exec;
use crate::gen::prog::{self, GenOpts};
use crate::gen::toks;
use crate::report::Report;
use crate::runner::{Check, Ctx, Finalize, Tier, Workload};
use crate::util::{hash_str, Rng};
use abasic_core::verif_hooks::tokenize;
use serde_json::json;

pub fn check() -> Check {
    Check { id: "C14", plan, run_case, finalize }
}

const BATCH: u64 = 256;

fn spellings() -> Vec<String> {
    let mut v: Vec<String> = vec![];
    for k in toks::KEYWORDS {
        v.push(k.to_string());
    }
    for o in toks::OPERATORS {
        v.push(o.to_string());
    }
    for s in ["A", "B$", "SCORE", "X1", "FNA", "E5"] {
        v.push(s.to_string());
    }
    // (the last five: digits and the letter E in the arrangements an exponent notation would use)
    for n in ["1", ".5", "007", "1.", "12.5", "100000000000000000000000", ".0000001", "1E3", "2e", "E3", "E", "1E-3"] {
        v.push(n.to_string());
    }
    for s in ["\"s p\"", "\"é\"", "\"\"", "\"IF x THEN\""] {
        v.push(s.to_string());
    }
    v.push("REM note".into());
    v.push("REM".into());
    v.push("DATA 1, two, \"three\"".into());
    v.push("DATA".into());
    v
}

fn plan(tier: Tier) -> Vec<Workload> {
    let n = spellings().len() as u64;
    let combos = match tier {
        Tier::Quick => n + n * n,
        Tier::Thorough => n + n * n + n * n * n,
    };
    vec![
        Workload::new("adjacency", (combos + BATCH - 1) / BATCH),
        Workload::new("numerals", tier.pick(20_000, 200_000) / BATCH),
        Workload::new("data", tier.pick(200_000, 3_000_000) / BATCH),
        Workload::new("toklines", tier.pick(150_000, 2_000_000) / BATCH),
        Workload::new("programs", tier.pick(60_000, 1_000_000)),
    ]
}

fn list_of(sess: &mut Session) -> Vec<String> {
    sess.settle();
    let out = sess.run_line("LIST", 5);
    out.outs.iter().filter_map(|o| if let Out::Print(p) = o { Some(p.trim_end_matches('\n').to_string()) } else { None }).collect()
}

fn stmt_tokens(line: &str) -> Option<Vec<String>> {
    let skip = abasic_core::verif_hooks::parse_line_number(line).map(|x| x.1).unwrap_or(0);
    tokenize(line, skip).ok().map(|v| v.into_iter().map(|t| t.debug).collect())
}

fn data_stream(sess: &mut Session) -> Vec<String> {
    let mut v = vec![];
    sess.settle();
    sess.run_line("RESTORE", 3);
    for _ in 0..200 {
        let out = sess.run_line("READ A$ : PRINT \"<\"; A$; \">\"", 10);
        if !out.res.is_ok() {
            v.push(format!("<{}>", out.res.outcome().0));
            break;
        }
        v.push(out.printed());
    }
    v
}

/// returns Ok(accepted?) or Err(explanation)
fn roundtrip(lines: &[String], replies: &[String], seed: u64, run: bool, stats: &mut (u64, u64)) -> Result<bool, String> {
    // a fifth of the cases go through a little editing session first (decided from the text itself)
    let churn = crate::util::hash_str(&lines.join("\n")) % 5 == 0;
    let mut a = Session::new();
    a.keep_log = false;
    a.check_invariants = false;
    let mut accepted_any = false;
    for l in lines {
        if a.call(Op::Line(l.clone())).res.is_ok() {
            accepted_any = true;
        }
    }
    if !accepted_any {
        return Ok(false);
    }
    if churn {
        // an editing session: list, delete a line, enter it again with other text, list again
        // (something has been READ before the edits: what READ delivers afterwards must follow the edited text)
        a.run_line("READ Z9$", 5);
        a.settle();
        let first = list_of(&mut a);
        if let Some(l) = first.get(first.len() / 2) {
            if let Some((n, _)) = abasic_core::verif_hooks::parse_line_number(l) {
                a.call(Op::Line(format!("{}", n)));
                let _ = list_of(&mut a);
                a.call(Op::Line(format!("{} PRINT \"second\" : DATA \"second\", 2", n)));
            }
        }
    }
    let l1 = list_of(&mut a);
    if l1.is_empty() {
        return Ok(false);
    }
    let mut b = Session::new();
    b.keep_log = false;
    b.check_invariants = false;
    for l in &l1 {
        let r = b.call(Op::Line(l.clone())).res.clone();
        if !r.is_ok() {
            return Err(format!("listed line {:?} is rejected on reload: {}", l, r.to_json()));
        }
    }
    let l2 = list_of(&mut b);
    if l1 != l2 {
        let i = l1.iter().zip(l2.iter()).position(|(x, y)| x != y).unwrap_or(l1.len().min(l2.len()));
        return Err(format!("LIST is not a fixed point: {:?} reloads and lists as {:?}", l1.get(i), l2.get(i)));
    }
    stats.0 += l1.len() as u64;
    // token-level identity of the stored program: original entry vs its listing
    // (compare what A stored, via its listing, against what B stored is implied by L1 == L2; here: entry vs listing)
    let snap_a = a.snapshot();
    let snap_b = b.snapshot();
    if snap_a.line_token_counts != snap_b.line_token_counts {
        return Err(format!("reloaded program has different token counts per line: {:?} vs {:?}", snap_a.line_token_counts, snap_b.line_token_counts));
    }
    // DATA stream
    let da = data_stream(&mut a);
    let db = data_stream(&mut b);
    if da != db {
        return Err(format!("READ sees {:?} in the original but {:?} after reloading the listing", da, db));
    }
    stats.1 += da.len() as u64;
    if run {
        a.call(Op::Randomize(seed));
        b.call(Op::Randomize(seed));
        let ra = exec::run_real(&mut a, "RUN", replies, 1500);
        let rb = exec::run_real(&mut b, "RUN", replies, 1500);
        if ra.printed() != rb.printed() || ra.final_res().outcome() != rb.final_res().outcome() || ra.turns.len() != rb.turns.len() {
            return Err(format!("RUN differs after reload: original {:?} / {:?}, reloaded {:?} / {:?}",
                crate::util::truncate(&ra.printed(), 200), ra.final_res().outcome(), crate::util::truncate(&rb.printed(), 200), rb.final_res().outcome()));
        }
    }
    Ok(true)
}

fn entry_vs_listing(entry: &str) -> Result<(), String> {
    // the listing of a single stored line tokenizes to the same tokens as the entry
    let Some(t0) = stmt_tokens(entry) else { return Ok(()) };
    if t0.is_empty() {
        return Ok(());
    }
    let mut a = Session::new();
    a.check_invariants = false;
    a.keep_log = false;
    if !a.call(Op::Line(entry.to_string())).res.is_ok() {
        return Ok(());
    }
    let l = list_of(&mut a);
    let Some(listed) = l.first() else { return Ok(()) };
    match stmt_tokens(listed) {
        Some(t1) if t1 == t0 => Ok(()),
        other => Err(format!("entry {:?} stores tokens {:?}; its listing {:?} tokenizes to {:?}", entry, t0, listed, other)),
    }
}

fn numeral(rng: &mut Rng) -> String {
    match rng.below(12) {
        0 => format!("{}", "9".repeat(1 + rng.usize(400))),
        1 => format!(".{}", "0".repeat(rng.usize(400)) + "7"),
        2 => format!("{}.{}", rng.below(1000), "3".repeat(1 + rng.usize(30))),
        3 => format!("1{}", "0".repeat(*rng.pick(&[20usize, 22, 100, 307, 308, 309, 310, 400]))),
        4 => format!("00{}", rng.below(100)),
        5 => format!("{}.", rng.below(100)),
        6 => format!(".{}", rng.below(1000)),
        7 => "179769313486231570000000000000000000000000000000000000000000000000000000000000000000000000000000000000000000000000000000000000000000000000000000000000000000000000000000000000000000000000000000000000000000000000000000000000000000000000000000000000000000000000000000000000000000000000000000000000000000000000000".into(),
        8 => format!("{}", rng.next_u64()),
        9 => format!("{}.{}", rng.next_u64(), rng.next_u64()),
        10 => "0.1".into(),
        _ => format!("{}", rng.below(100000)),
    }
}

fn data_text(rng: &mut Rng) -> String {
    let n = 1 + rng.usize(5);
    let mut items = vec![];
    for _ in 0..n {
        items.push(match rng.below(16) {
            0 => "hello".to_string(),
            1 => "\"quoted\"".into(),
            2 => "hello \"there\"".into(),
            3 => "a\"b".into(),
            4 => "".into(),
            5 => "\"\"".into(),
            6 => " padded ".into(),
            7 => "\"  keep  \"".into(),
            8 => numeral(rng),
            9 => format!("-{}", rng.below(100)),
            10 => rng.s(&["inf", "nan", "1e5", "+7", "-0", "1E-3", "infinity", "NaN", "-inf"]).to_string(),
            11 => rng.s(&["\"a, b\"", "\u{a0}\"abc\"", "\u{3000}\"x, y\"", "\x0b\"vt\"", "\u{2003}word", "\"q\"\u{a0}"]).to_string(),
            12 => "\"c:d\"".into(),
            13 => "é ü".into(),
            14 => "\"12\"".into(),
            _ => "x\"".into(),
        });
    }
    let sep = rng.s(&[",", ", ", " , ", ",  "]);
    let mut s = format!("DATA{}{}", rng.s(&[" ", "", "  "]), items.join(sep));
    if rng.chance(1, 3) {
        s.push_str(rng.s(&[" : PRINT 1", ":PRINT 1", " :", " : DATA 5, \"z\""]));
    }
    s
}

/// line number of the k-th line: usually 10, 20, ..; sometimes a boundary of the u64 line-number space
fn lineno(rng: &mut Rng, k: usize) -> u64 {
    if rng.chance(1, 6) {
        *rng.pick(&[0, 1, 63999, 65535, 65536, 4294967295, 4294967296, 1 << 63, u64::MAX - 1, u64::MAX])
    } else {
        10 * (k as u64 + 1)
    }
}

fn run_case(ctx: &Ctx, index: u64, rep: &mut Report) {
    let mut rng = ctx.rng(index);
    let mut stats = (0u64, 0u64);
    let mut handle = |lines: Vec<String>, replies: &[String], seed: u64, run: bool, source: &str, rep: &mut Report, stats: &mut (u64, u64)| {
        match crate::util::catch(|| roundtrip(&lines, replies, seed, run, stats)) {
            Err(m) => ctx.violation(rep, "C14", "panic", index, format!("panic during LIST/reload of {:?}: {}", lines, m), json!({"lines": lines})),
            Ok(Err(why)) => {
                let sig = if why.contains("DATA") || why.contains("READ sees") { "data" } else if why.contains("rejected") { "rejected" } else if why.contains("fixed point") { "fixed-point" } else { "other" };
                ctx.violation(rep, "C14", sig, index, why, json!({"lines": lines, "source": source}));
            }
            Ok(Ok(true)) => {
                rep.count("programs_roundtripped");
                if rep.want_sample() && rep.get("programs_roundtripped") % 997 == 1 {
                    rep.sample(json!({"workload": source, "entered": lines}));
                }
                let text = lines.join("\n");
                let up = text.to_ascii_uppercase();
                if up.contains("DATA") || up.contains("REM") || text.contains('"') || text.contains('.') {
                    rep.nontrivial(hash_str(&text));
                }
            }
            Ok(Ok(false)) => rep.count("not_storable"),
        }
        for l in &lines {
            if let Err(why) = entry_vs_listing(l) {
                ctx.violation(rep, "C14", "entry-vs-listing", index, why, json!({"line": l, "source": source}));
            } else {
                rep.count("entry_vs_listing_checked");
            }
        }
    };
    match ctx.workload.as_str() {
        "adjacency" => {
            let sp = spellings();
            let n = sp.len() as u64;
            let total = match ctx.tier { Tier::Quick => n + n * n, Tier::Thorough => n + n * n + n * n * n };
            let lo = index * BATCH;
            let hi = (lo + BATCH).min(total);
            for e in lo..hi {
                let seq: Vec<usize> = if e < n {
                    vec![e as usize]
                } else if e < n + n * n {
                    let k = e - n;
                    vec![(k / n) as usize, (k % n) as usize]
                } else {
                    let k = e - n - n * n;
                    vec![(k / (n * n)) as usize, ((k / n) % n) as usize, (k % n) as usize]
                };
                let body: Vec<&str> = seq.iter().map(|i| sp[*i].as_str()).collect();
                let line = format!("10 {}", body.join(" "));
                handle(vec![line], &[], 0, true, "adjacency", rep, &mut stats);
            }
            rep.evaluations += (hi - lo).saturating_sub(1);
            rep.add("adjacency.lines", hi - lo);
        }
        "numerals" => {
            for _ in 0..BATCH {
                let n = numeral(&mut rng);
                let line = match rng.below(5) {
                    0 => format!("10 PRINT {}", n),
                    1 => format!("10 X = {} + {}", n, numeral(&mut rng)),
                    2 => format!("10 IF X < {} THEN {}", n, rng.below(100)),
                    3 => format!("10 DIM A({})", n),
                    _ => format!("10 PRINT A$ {} \"x\" {}", n, n),
                };
                handle(vec![line], &[], 0, true, "numerals", rep, &mut stats);
            }
            rep.evaluations += BATCH - 1;
        }
        "data" => {
            for _ in 0..BATCH {
                let n = 1 + rng.usize(3);
                let lines: Vec<String> = (0..n).map(|k| format!("{} {}", lineno(&mut rng, k), data_text(&mut rng))).collect();
                handle(lines, &[], 0, true, "data", rep, &mut stats);
            }
            rep.evaluations += BATCH - 1;
        }
        "toklines" => {
            for _ in 0..BATCH {
                let n = 1 + rng.usize(4);
                let lines: Vec<String> = (0..n).map(|k| format!("{} {}", lineno(&mut rng, k), toks::join(&toks::random_pieces(&mut rng, 10)))).collect();
                handle(lines, &["1".to_string()], 0, true, "toklines", rep, &mut stats);
            }
            rep.evaluations += BATCH - 1;
        }
        "programs" => {
            let g = prog::generate(&mut rng, &GenOpts { inputs: true, stops: false, ..GenOpts::default() });
            // vary spelling: sometimes crunch the blanks out of the entry (not inside literals)
            let lines: Vec<String> = g.prog.text_lines();
            let seed = rng.below(1 << 33);
            handle(lines, &g.replies, seed, true, "programs", rep, &mut stats);
        }
        other => panic!("unknown workload {}", other),
    }
    rep.add("listed_lines_reloaded", stats.0);
    rep.add("data_items_compared", stats.1);

}

fn finalize(tier: Tier, rep: &mut Report) -> Finalize {
    let n = spellings().len() as u64;
    let total = match tier { Tier::Quick => n + n * n, Tier::Thorough => n + n * n + n * n * n };
    let exhaustive = rep.get("adjacency.lines") == total;
    Finalize {
        rule: format!(
            "A case is a small program entered into interpreter A, listed, the listing entered into a fresh interpreter B and listed again: every listed line must be accepted, the listings must be identical, token counts per line equal, the DATA stream read by `READ A$` until OUT OF DATA equal, RUN transcripts equal (same seed and replies); in addition the listing of each single entry must tokenize to the tokens of the entry. \
             adjacency: every token spelling next to every other (all {} singles and ordered pairs; triples in the thorough tier); numerals: leading dot, leading zeros, trailing dot, 1-400 digits, 1-400 decimals, values around 1.8e308; data: quoted, unquoted, numeric, signed, empty, blank-padded, quote-containing items, inf/nan/exponent spellings, followed or not by `: statement`; toklines: random token lines; programs: G-prog programs. \
             Non-trivial: the program contains a DATA, a REM, a string literal or a non-integer numeral. Distinct by hash of the entered text.", n),
        floors: vec![
            ("programs_roundtripped".into(), 50_000),
            ("entry_vs_listing_checked".into(), 100_000),
            ("data_items_compared".into(), 100_000),
            ("distinct_nontrivial".into(), 30_000),
        ],
        assumptions: vec!["lines that the interpreter rejects at entry are not part of a stored program and are skipped".into()],
        exhaustive,
        extras: json!({"adjacency": {"spellings": n, "lines": total, "complete": exhaustive}}),
    }
}
