//! C18 — RND is a pure, in-range function of the seed.
//!
//! Oracle: M-lcg (u128 arithmetic). Workloads:
//!   sweep   : generator states in [0, 2^33) through the rng hooks (thorough: all of them)
//!   windows : 2^16 states around 0, 2^32, 2^33-1 (always)
//!   seeds   : seeds >= 2^33 (boundaries + random u64), 64 draws each, through the hook and through PRINT RND(1)
//!   scripts : random interleavings of positive / zero / negative arguments through the language
//!   fronts  : two core interpreters and one JsInterpreter on the same seed

use crate::drive::{Op, Out, Res, Session};
use crate::model::lcg;
use crate::report::Report;
use crate::runner::{Check, Ctx, Finalize, Tier, Workload};
use crate::util::hash_str;
use abasic_core::verif_hooks;
use serde_json::json;

const CHUNK: u64 = 1 << 20;
const QUICK_STRIDE: u64 = 128;

pub fn check() -> Check {
    Check { id: "C18", plan, run_case, finalize }
}

fn plan(tier: Tier) -> Vec<Workload> {
    let sweep_cases = match tier {
        Tier::Quick => (1u64 << 33) / QUICK_STRIDE / CHUNK,
        Tier::Thorough => (1u64 << 33) / CHUNK,
    };
    vec![
        Workload::new("sweep", sweep_cases),
        Workload::new("windows", 3 * 16),
        Workload::new("seeds", tier.pick(3_000, 60_000)),
        Workload::new("seeds_ship", tier.pick(1_000, 20_000)).ship(),
        Workload::new("scripts", tier.pick(3_000, 60_000)),
        Workload::new("fronts", tier.pick(600, 10_000)),
        // an interpreter with a past (draws, RND(0), errors) that is re-seeded must behave like a fresh one
        Workload::new("reseed", tier.pick(6_000, 100_000)),
        // stored programs: draws inside user functions, as arguments of other draws, across several RUNs
        Workload::new("programs", tier.pick(6_000, 100_000)),
    ]
}

/// the state whose successor is `target` (the multiplier is odd, hence invertible modulo 2^33)
fn predecessor(target: u64) -> u64 {
    // inverse of 1664525 modulo 2^33 by Newton iteration
    let m: u128 = 1 << 33;
    let a: u128 = 1664525;
    let mut inv: u128 = 1;
    for _ in 0..6 {
        inv = (inv * (2 + m - (a * inv) % m)) % m;
    }
    let t = (target as u128 + m - (lcg::INC % m)) % m;
    ((t * inv) % m) as u64
}

fn check_state(s: u64) -> Result<(), String> {
    // the same three facts through the dispatch the language uses (RND(x) with x > 0, x = 0, x < 0)
    if s < (1u64 << 33) {
        let want_ns = lcg::next_state(s);
        match verif_hooks::rng_rnd(s, 1.0) {
            (ns, Ok(v)) if ns == want_ns && v.to_bits() == lcg::value_of(want_ns).to_bits() => {}
            other => return Err(format!("state {}: RND(1) gives {:?}; the documented step gives state {} value {:?}", s, other, want_ns, lcg::value_of(want_ns))),
        }
        match verif_hooks::rng_rnd(s, 0.0) {
            (ns, Ok(v)) if ns == s && v.to_bits() == lcg::value_of(s).to_bits() => {}
            other => return Err(format!("state {}: RND(0) gives {:?}; it must repeat {:?} without advancing", s, other, lcg::value_of(s))),
        }
        match verif_hooks::rng_rnd(s, -1.0) {
            (ns, Err(())) if ns == s => {}
            other => return Err(format!("state {}: RND(-1) gives {:?}; it must be an error without advancing", s, other)),
        }
    }
    let (ns, v) = verif_hooks::rng_step(s);
    let want_ns = lcg::next_state(s);
    if ns != want_ns {
        return Err(format!("state {}: next state {} but the documented LCG gives {}", s, ns, want_ns));
    }
    let want_v = lcg::value_of(want_ns);
    if v.to_bits() != want_v.to_bits() {
        return Err(format!("state {}: value {:?} but model {:?}", s, v, want_v));
    }
    if !(v >= 0.0 && v < 1.0) {
        return Err(format!("state {}: value {:?} outside [0,1)", s, v));
    }
    if s < (1u64 << 33) {
        let l = verif_hooks::rng_latest(s);
        if l.to_bits() != lcg::value_of(s).to_bits() || !(l >= 0.0 && l < 1.0) {
            return Err(format!("state {}: RND(0) value {:?} but model {:?}", s, l, lcg::value_of(s)));
        }
    }
    Ok(())
}

const BOUNDARY_SEEDS: &[u64] = &[
    0,
    1,
    (1 << 33) - 1,
    1 << 33,
    (1 << 33) + 1,
    1 << 43,
    (1 << 43) + 12345,
    11_082_237_348_102, // just below u64::MAX / 1664525
    11_082_237_348_103,
    11_082_237_348_104,
    1 << 44,
    (1 << 44) + 1,
    1 << 53,
    (1 << 53) + 1,
    1 << 62,
    (1 << 63) - 1,
    1 << 63,
    (1 << 63) + 1,
    u64::MAX - 1,
    u64::MAX,
];

fn pick_seed(rng: &mut crate::util::Rng, index: u64) -> u64 {
    if (index as usize) < BOUNDARY_SEEDS.len() * 2 {
        return BOUNDARY_SEEDS[index as usize % BOUNDARY_SEEDS.len()];
    }
    if rng.chance(1, 6) {
        // seeds one, two or three steps before a special state (0, 1, 2^33-1, 2^32), possibly shifted by k*2^33
        let target = *rng.pick(&[0u64, 1, (1 << 33) - 1, 1 << 32, 2]);
        let mut s = predecessor(target);
        for _ in 0..rng.below(3) {
            s = predecessor(s);
        }
        return s + (rng.below(4) << 33);
    }
    match rng.below(4) {
        0 => rng.next_u64(),
        1 => rng.next_u64() >> rng.below(40),
        2 => (1u64 << (33 + rng.below(31))).wrapping_add(rng.below(1000)).wrapping_sub(500),
        _ => u64::MAX - rng.below(1 << 20),
    }
}

fn print_of(sess: &mut Session, line: &str) -> (Res, String) {
    sess.settle();
    let out = sess.run_line(line, 50);
    sess.settle();
    (out.res.clone(), out.printed())
}

fn run_case(ctx: &Ctx, index: u64, rep: &mut Report) {
    let mut rng = ctx.rng(index);
    match ctx.workload.as_str() {
        "sweep" => {
            let (start, stride) = match ctx.tier {
                Tier::Quick => (index * CHUNK * QUICK_STRIDE + (ctx.seed % QUICK_STRIDE), QUICK_STRIDE),
                Tier::Thorough => (index * CHUNK, 1),
            };
            let mut s = start;
            let mut n = 0u64;
            let mut maxv: f64 = 0.0;
            for _ in 0..CHUNK {
                if s >= (1 << 33) {
                    break;
                }
                if let Err(m) = check_state(s) {
                    ctx.violation(rep, "C18", "sweep-mismatch", index, m, json!({"state": s}));
                    break;
                }
                let v = lcg::value_of(lcg::next_state(s));
                if v > maxv {
                    maxv = v;
                }
                n += 1;
                s += stride;
            }
            rep.add("sweep.states", n);
            rep.evaluations += n.saturating_sub(1);
            rep.max("sweep.max_value_times_2^33", (maxv * 8589934592.0) as u64);
            if index == 0 {
                rep.sample(json!({"workload":"sweep","first_state":start,"stride":stride,
                    "rng_step(first)": format!("{:?}", verif_hooks::rng_step(start))}));
            }
        }
        "windows" => {
            let centers = [0u64, 1 << 32, (1 << 33) - 1];
            let c = centers[(index / 16) as usize];
            let part = index % 16;
            let lo = c.saturating_sub(1 << 15);
            let hi = (lo + (1 << 16)).min(1 << 33);
            let span = (hi - lo) / 16;
            let mut n = 0;
            for s in (lo + part * span)..(lo + (part + 1) * span) {
                if let Err(m) = check_state(s) {
                    ctx.violation(rep, "C18", "window-mismatch", index, m, json!({"state": s}));
                    break;
                }
                n += 1;
            }
            rep.add("windows.states", n);
            rep.evaluations += n.saturating_sub(1);
        }
        "seeds" | "seeds_ship" => {
            let seed = pick_seed(&mut rng, index);
            // through the hook (step from an arbitrary 64-bit state)
            let hook = crate::util::catch(|| verif_hooks::rng_step(seed));
            match hook {
                Err(m) => {
                    ctx.violation(rep, "C18", "seed-panic-hook", index,
                        format!("stepping the generator from seed {} panicked: {}", seed, m), json!({"seed": seed}));
                    return;
                }
                Ok((ns, v)) => {
                    let want = lcg::next_state(seed);
                    if ns != want || v.to_bits() != lcg::value_of(want).to_bits() {
                        ctx.violation(rep, "C18", "seed-mismatch-hook", index,
                            format!("seed {}: first step gives state {} value {:?}; model state {} value {:?}", seed, ns, v, want, lcg::value_of(want)),
                            json!({"seed": seed}));
                        return;
                    }
                }
            }
            // through the language
            let mut sess = Session::new();
            sess.check_invariants = false;
            sess.call(Op::Randomize(seed));
            let mut model = lcg::Lcg::new(seed);
            let draws = 64;
            for k in 0..draws {
                let (res, text) = print_of(&mut sess, "PRINT RND(1)");
                let want = format!("{}\n", model.next());
                match res {
                    Res::Ok if text == want => {}
                    other => {
                        let prop = if matches!(other, Res::Panic(_)) { "seed-panic" } else { "seed-mismatch" };
                        ctx.violation(rep, "C18", prop, index,
                            format!("randomize({}) then draw #{}: got {:?} {:?}, model prints {:?}", seed, k + 1, other.to_json(), text, want),
                            json!({"seed": seed, "draw": k + 1}));
                        return;
                    }
                }
                rep.count("seeds.draws");
            }
            if seed >= (1 << 33) {
                rep.count("seeds.above_2^33");
            }
            if seed > 11_082_237_348_103 {
                rep.count("seeds.product_overflows_u64");
            }
            rep.nontrivial(hash_str(&format!("seed{}", seed)));
            if index < 2 {
                let mut m = lcg::Lcg::new(seed);
                let first: Vec<f64> = (0..3).map(|_| m.next()).collect();
                rep.sample(json!({"workload": ctx.workload, "seed": seed, "first_values": first}));
            }
        }
        "scripts" => {
            let seed = if rng.coin() { rng.below(1 << 33) } else { pick_seed(&mut rng, 1000) };
            let mut sess = Session::new();
            sess.call(Op::Randomize(seed));
            let mut model = lcg::Lcg::new(seed);
            let mut had_positive = false;
            let (mut npos, mut nzero, mut nneg) = (0, 0, 0);
            let len = 4 + rng.below(40);
            let mut script = vec![];
            for _ in 0..len {
                let kind = rng.below(10);
                let (arg, class): (String, i32) = if kind < 5 {
                    (rng.pick(&["1", "2", ".5", "1000000", ".0000001", "10^400", "1+1", "ABS(-3)", "3-2", "(1)",
                        ".0000000000000001", ".00000000000000000000000000000000000001", "2^-60", "1/10^300", "2^-1074"]).to_string(), 1)
                } else if kind < 8 {
                    if !had_positive {
                        ("1".to_string(), 1)
                    } else {
                        (rng.pick(&["0", "0.0", "-0", "1-1", "(0)", "0*5"]).to_string(), 0)
                    }
                } else {
                    (rng.pick(&["-1", "-.5", "-1000", "0-1", "-(10^400)", "-2+1", "-.0000000000000001", "-(2^-60)", "-(2^-1074)"]).to_string(), -1)
                };
                // a tenth of the calls are malformed (no closing parenthesis, a second argument): an error, and no draw
                let (class, malformed) = if rng.chance(1, 10) { (-1, true) } else { (class, false) };
                let form = rng.below(3);
                let line = if malformed {
                    match form {
                        0 => format!("PRINT RND({}", arg),
                        1 => format!("X = RND({}, 4)", arg),
                        _ => format!("PRINT INT(6 * RND({} + 1", arg),
                    }
                } else {
                    match form {
                        0 => format!("PRINT RND({})", arg),
                        1 => format!("X = RND({}): PRINT X", arg),
                        _ => format!("PRINT RND ( {} )", arg),
                    }
                };
                script.push(line.clone());
                let before = sess.snapshot().rng_state;
                let out = sess.run_line(&line, 50);
                let after = sess.snapshot().rng_state;
                let text = out.printed();
                match class {
                    1 => {
                        had_positive = true;
                        npos += 1;
                        let want = format!("{}\n", model.next());
                        if !out.res.is_ok() || text != want {
                            ctx.violation(rep, "C18", "script-positive", index,
                                format!("seed {} script {:?}: positive draw printed {:?} ({:?}), model {:?}", seed, script, text, out.res.to_json(), want),
                                json!({"seed": seed, "script": script}));
                            return;
                        }
                        if after != model.state {
                            ctx.violation(rep, "C18", "script-state", index,
                                format!("seed {} script {:?}: generator state {} after the draw, model {}", seed, script, after, model.state),
                                json!({"seed": seed, "script": script}));
                            return;
                        }
                    }
                    0 => {
                        nzero += 1;
                        let want = format!("{}\n", model.latest());
                        if !out.res.is_ok() || text != want || after != before {
                            ctx.violation(rep, "C18", "script-zero", index,
                                format!("seed {} script {:?}: RND(0) printed {:?} ({:?}), model repeats {:?}; state {} -> {}", seed, script, text, out.res.to_json(), want, before, after),
                                json!({"seed": seed, "script": script}));
                            return;
                        }
                    }
                    _ => {
                        nneg += 1;
                        if out.res.is_ok() || after != before || !text.is_empty() {
                            ctx.violation(rep, "C18", "script-negative", index,
                                format!("seed {} script {:?}: negative argument gave {:?} output {:?}; state {} -> {} (must be an error without advancing)", seed, script, out.res.to_json(), text, before, after),
                                json!({"seed": seed, "script": script}));
                            return;
                        }
                    }
                }
                rep.count("scripts.calls");
            }
            crate::drive::flush_trips(ctx, rep, index, &sess, || json!({"seed": seed, "script": script}));
            if npos > 0 && nzero > 0 && nneg > 0 {
                rep.nontrivial(hash_str(&format!("{}|{}", seed, script.join("|"))));
            }
            if index < 2 {
                rep.sample(json!({"workload":"scripts","seed":seed,"script":script}));
            }
        }
        "fronts" => {
            let seed = pick_seed(&mut rng, index + 7);
            let mut a = Session::new();
            let mut b = Session::new();
            a.call(Op::Randomize(seed));
            b.call(Op::Randomize(seed));
            let js = crate::util::catch(|| {
                let mut js = abasic_web::JsInterpreter::default();
                js.randomize(seed);
                let mut v = vec![];
                for _ in 0..16 {
                    js.start_evaluating("PRINT RND(1)".to_string());
                    let mut s = String::new();
                    for o in js.take_latest_output() {
                        s.push_str(&o.into_string());
                    }
                    if let Some(e) = js.take_latest_error() {
                        s.push_str(&format!("<error {}>", e));
                    }
                    v.push(s);
                }
                v
            });
            let mut model = lcg::Lcg::new(seed);
            let jsv = match js {
                Ok(v) => v,
                Err(m) => {
                    ctx.violation(rep, "C18", "front-web-panic", index,
                        format!("JsInterpreter with seed {} panicked: {}", seed, m), json!({"seed": seed}));
                    return;
                }
            };
            for k in 0..16 {
                let (ra, ta) = print_of(&mut a, "PRINT RND(1)");
                let (rb, tb) = print_of(&mut b, "print rnd(1)");
                let want = format!("{}\n", model.next());
                if !ra.is_ok() || !rb.is_ok() || ta != want || tb != want || jsv[k] != want {
                    ctx.violation(rep, "C18", "front-mismatch", index,
                        format!("seed {} draw {}: core A {:?}, core B {:?}, web {:?}, model {:?}", seed, k + 1, ta, tb, jsv[k], want),
                        json!({"seed": seed}));
                    return;
                }
                rep.count("fronts.draws");
            }
            rep.nontrivial(hash_str(&format!("front{}", seed)));
        }
        "reseed" => {
            // A has a past; B is fresh. Both get randomize(seed); the same script must print the same on both.
            let mut a = Session::new();
            a.check_invariants = false;
            let past = rng.below(6);
            a.call(Op::Randomize(pick_seed(&mut rng, 999)));
            for _ in 0..past {
                let l = rng.s(&["PRINT RND(1)", "X = RND(1)", "PRINT RND(0)", "PRINT RND(-1)", "PRINT RND(1) + RND(1)", "10 PRINT RND(1)", "RUN"]).to_string();
                a.run_line(&l, 20);
            }
            let seed = if rng.chance(1, 6) { 0 } else if rng.coin() { rng.below(1 << 33) } else { pick_seed(&mut rng, 999) };
            let mut b = Session::new();
            b.check_invariants = false;
            a.call(Op::Randomize(seed));
            b.call(Op::Randomize(seed));
            let mut script = vec![];
            for k in 0..8 {
                let l = if k == 0 && rng.coin() { "PRINT RND(0)".to_string() } else {
                    rng.s(&["PRINT RND(1)", "PRINT RND(0)", "PRINT RND(1); RND(0)", "PRINT RND(-1)", "X = RND(.5) : PRINT X"]).to_string()
                };
                script.push(l.clone());
                let (ra, ta) = print_of(&mut a, &l);
                let (rb, tb) = print_of(&mut b, &l);
                if ra.outcome() != rb.outcome() || ta != tb {
                    ctx.violation(rep, "C18", "reseed-differs", index,
                        format!("after randomize({}) a used interpreter prints {:?} ({:?}) for {:?} where a fresh one prints {:?} ({:?}); script so far {:?}", seed, ta, ra.outcome(), l, tb, rb.outcome(), script),
                        json!({"seed": seed, "script": script, "past_statements": past}));
                    return;
                }
                rep.count("reseed.statements_compared");
            }
            if past > 0 {
                rep.nontrivial(hash_str(&format!("reseed{}|{:?}", seed, script)));
            }
        }
        "programs" => {
            let seed = if rng.coin() { rng.below(1 << 33) } else { pick_seed(&mut rng, 999) };
            let mut sess = Session::new();
            sess.call(Op::Randomize(seed));
            let mut model = lcg::Lcg::new(seed);
            // statement kinds: what they print is computed on the model while the program text is built
            let n = 3 + rng.usize(8);
            let mut lines = vec!["5 DEF FN D(X) = INT(RND(1) * X) + 1".to_string()];
            let mut kinds = vec![];
            for k in 0..n {
                let kind = rng.below(13);
                kinds.push(kind);
                let text = match kind {
                    // every RND(positive) written in the program text is a draw, whatever surrounds it
                    11 => "INPUT E(INT(RND(1) * 3)) : PRINT RND(0)",
                    // the host types PRINT RND(1) at this STOP and continues: the typed draw is part of the sequence
                    12 => "STOP : PRINT RND(1)",
                    7 => "IF RND(1) >= 0 THEN INPUT Q",
                    8 => "X = 0 AND RND(1) : PRINT RND(0)",
                    9 => "X = 1 OR RND(1) : PRINT RND(1)",
                    10 => "IF 0 AND RND(1) THEN PRINT \"no\" ELSE PRINT RND(0)",
                    0 => "PRINT RND(1)",
                    1 => "PRINT RND(FN D(6))",
                    2 => "PRINT FN D(6)",
                    3 => "PRINT RND(RND(1))",
                    4 => "PRINT RND(0)",
                    5 => "PRINT RND(RND(1) * 0)",
                    _ => "X = RND(1) : PRINT RND(X + 1)",
                };
                lines.push(format!("{} {}", 10 * (k + 1), text));
            }
            for l in &lines {
                sess.call(Op::Line(l.clone()));
            }
            let runs = 1 + rng.usize(3);
            let mut nested = false;
            for r in 0..runs {
                let mut want = String::new();
                for kind in &kinds {
                    let v = match kind {
                        0 => model.next(),
                        1 => { let _d = (model.next() * 6.0).floor() + 1.0; nested = true; model.next() }
                        2 => (model.next() * 6.0).floor() + 1.0,
                        3 => { let a = model.next(); nested = true; if a > 0.0 { model.next() } else { model.latest() } }
                        4 => model.latest(),
                        5 => { model.next(); nested = true; model.latest() }
                        7 => { model.next(); continue; }
                        11 => { model.next(); model.latest() }
                        12 => { want.push_str(&format!("{}\n", model.next())); model.next() }
                        8 | 10 => { model.next(); model.latest() }
                        9 => { model.next(); model.next() }
                        _ => { model.next(); model.next() }
                    };
                    want.push_str(&format!("{}\n", v));
                }
                let replies = vec!["1".to_string()];
                let mut run = crate::exec::run_real(&mut sess, "RUN", &replies, 400);
                let mut got = run.printed();
                // at every STOP the host draws once at the prompt and continues
                let mut guard = 0;
                while guard < 20 && run.final_res().is_ok() && !sess.poisoned && sess.state() == abasic_core::InterpreterState::Idle
                    && run.turns.last().map(|t| t.outs.iter().any(|o| matches!(o, Out::Break(_)))).unwrap_or(false)
                {
                    guard += 1;
                    got.push_str(&sess.run_line("PRINT RND(1)", 5).printed());
                    run = crate::exec::run_real(&mut sess, "CONT", &replies, 400);
                    got.push_str(&run.printed());
                }
                struct Outcome { res: Res }
                let out = Outcome { res: run.final_res() };
                let state = sess.snapshot().rng_state;
                if !out.res.is_ok() || got != want || state != model.state {
                    ctx.violation(rep, "C18", "program-sequence", index,
                        format!("randomize({}), program {:?}, RUN #{}: printed {:?} ({}), generator state {}; the documented sequence gives {:?}, state {}",
                            seed, lines, r + 1, got, out.res.to_json(), state, want, model.state),
                        json!({"seed": seed, "program": lines, "run": r + 1}));
                    return;
                }
                rep.add("programs.values_compared", kinds.len() as u64);
                sess.settle();
            }
            crate::drive::flush_trips(ctx, rep, index, &sess, || json!({"seed": seed, "program": lines}));
            if nested && runs > 1 {
                rep.nontrivial(hash_str(&format!("prog{}|{:?}", seed, kinds)));
            }
            if index < 2 {
                rep.sample(json!({"workload": "programs", "seed": seed, "program": lines, "runs": runs}));
            }
        }
        other => panic!("unknown workload {}", other),
    }
}

fn finalize(tier: Tier, rep: &mut Report) -> Finalize {
    let exhaustive = tier == Tier::Thorough && rep.get("sweep.states") == (1u64 << 33);
    Finalize {
        rule: "sweep/windows: every visited generator state s is checked through the rng hooks against the u128 model (next state, value bits, 0<=v<1, RND(0) value); \
               these are counted in counters.sweep.states, not in distinct_nontrivial. distinct_nontrivial counts distinct (by hash) seed cases (64 draws through PRINT RND(1)), \
               script cases containing at least one positive, one zero and one negative argument, front-end comparison cases, and stored programs (draws in user functions and as arguments of other draws, RUN two or more times on one interpreter: printed values and final generator state against the documented sequence).".into(),
        floors: vec![
            ("sweep.states".into(), tier.pick(1 << 25, 1 << 33)),
            ("seeds.product_overflows_u64".into(), 100),
            ("scripts.calls".into(), 10_000),
            ("fronts.draws".into(), 1_000),
            ("reseed.statements_compared".into(), 20_000),
            ("programs.values_compared".into(), 20_000),
            ("distinct_nontrivial".into(), 1_000),
        ],
        assumptions: vec![
            "f64 division of a 33-bit integer by 2^33 is exact, so value comparison is bit-exact".into(),
            "number formatting in PRINT is Rust's Display for f64 (shared by model and implementation)".into(),
            "the Web front end is the native build of abasic-web's JsInterpreter, not the wasm artefact".into(),
        ],
        exhaustive,
        extras: json!({
            "states_swept": rep.get("sweep.states") + rep.get("windows.states"),
            "sweep_is_exhaustive_over_2^33_states": exhaustive,
        }),
    }
}
