//! C15 — loading a file equals typing it in, and CLI options apply in both modes.
//!
//! Part 1 (in-process, metamorphic): SourceFileAnalyzer::analyze(text).into_interpreter() versus a default
//! interpreter fed the same lines one by one: identical LIST, identical per-turn RUN behaviour and snapshots.
//! Part 2 (real `abasic` binary as a child process): for each program and each combination of -w, -t and
//! --skip-check, `abasic [opts] FILE` (stdin = replies) versus `abasic [opts]` (stdin = lines, RUN, replies).

use crate::drive::{flush_trips, Op, Session};
use crate::exec;
use crate::gen::prog::{self, GenOpts};
use crate::gen::toks;
use crate::report::Report;
use crate::runner::{Check, Ctx, Finalize, Tier, Workload, VERIF_DIR};
use crate::util::hash_str;
use abasic_core::{DiagnosticMessage, SourceFileAnalyzer};
use serde_json::json;
use std::io::Write;
use std::process::{Command, Stdio};
use std::time::{Duration, Instant};

pub fn check() -> Check {
    Check { id: "C15", plan, run_case, finalize }
}

fn plan(tier: Tier) -> Vec<Workload> {
    vec![
        Workload::new("inprocess", tier.pick(150_000, 2_000_000)),
        Workload::new("cli", tier.pick(320, 8_000)),
    ]
}

fn runtime_view(s: &abasic_core::verif_hooks::Snapshot) -> String {
    format!(
        "state={:?} loc={:?} bp={:?} stack={:?} loops={:?} fns={:?} data={:?} vars={:?} arrays={:?} rng={} lines={:?}",
        s.state, s.location, s.breakpoint, s.stack, s.loops, s.functions, s.data_cursor, s.variables, s.arrays, s.rng_state, s.line_token_counts
    )
}

fn abasic_bin() -> String {
    format!("{}/target/repo/debug/abasic", VERIF_DIR)
}

struct ChildOut {
    stdout: String,
    stderr: String,
    code: Option<i32>,
    timed_out: bool,
}

fn run_child(args: &[String], stdin_text: &str, home: &str) -> Result<ChildOut, String> {
    let mut child = Command::new(abasic_bin())
        .args(args)
        .env("HOME", home)
        .env("NO_COLOR", "1")
        .env("TERM", "dumb")
        .env("RUST_BACKTRACE", "0")
        .stdin(Stdio::piped())
        .stdout(Stdio::piped())
        .stderr(Stdio::piped())
        .spawn()
        .map_err(|e| format!("spawn {}: {}", abasic_bin(), e))?;
    {
        let mut si = child.stdin.take().unwrap();
        let _ = si.write_all(stdin_text.as_bytes());
    }
    let mut so = child.stdout.take().unwrap();
    let mut se = child.stderr.take().unwrap();
    let t1 = std::thread::spawn(move || {
        let mut b = vec![];
        use std::io::Read;
        let _ = so.read_to_end(&mut b);
        String::from_utf8_lossy(&b).to_string()
    });
    let t2 = std::thread::spawn(move || {
        let mut b = vec![];
        use std::io::Read;
        let _ = se.read_to_end(&mut b);
        String::from_utf8_lossy(&b).to_string()
    });
    let deadline = Instant::now() + Duration::from_secs(60);
    let mut timed_out = false;
    let code = loop {
        match child.try_wait() {
            Ok(Some(st)) => break st.code(),
            Ok(None) => {
                if Instant::now() > deadline {
                    let _ = child.kill();
                    let _ = child.wait();
                    timed_out = true;
                    break None;
                }
                std::thread::sleep(Duration::from_millis(2));
            }
            Err(_) => break None,
        }
    };
    Ok(ChildOut { stdout: t1.join().unwrap_or_default(), stderr: t2.join().unwrap_or_default(), code, timed_out })
}

/// What interactive mode prints before and between commands is learned from the binary itself (so that a
/// re-worded banner or prompt is not mistaken for a difference): with empty stdin it prints banner + one
/// prompt, with one empty line banner + two prompts.
fn learn_banner_and_prompt(home: &str) -> Option<(String, String)> {
    let a = run_child(&[], "", home).ok()?;
    let b = run_child(&[], "\n", home).ok()?;
    if a.timed_out || b.timed_out || !b.stdout.starts_with(&a.stdout) {
        return None;
    }
    let prompt = b.stdout[a.stdout.len()..].to_string();
    if prompt.is_empty() || !a.stdout.ends_with(&prompt) {
        return None;
    }
    let banner = a.stdout[..a.stdout.len() - prompt.len()].to_string();
    Some((banner, prompt))
}

fn strip_learned(s: &str, banner: &str, prompt: &str) -> String {
    let s = s.strip_prefix(banner).unwrap_or(s);
    // generated programs never print the prompt text
    let s = s.replace(prompt, "");
    let p = prompt.trim_end();
    let s = if !p.is_empty() { s.strip_suffix(p).unwrap_or(&s).to_string() } else { s };
    s
}

#[allow(dead_code)]
fn strip_banner(s: &str) -> String {
    // rustyline echoes its prompt even when stdin is a pipe: remove the `] ` prompts of interactive mode
    // (generated programs never print a `]`)
    let s = s.replace("] ", "");
    let s = s.strip_suffix(']').unwrap_or(&s).to_string();
    s.lines()
        .filter(|l| !(l.starts_with("Welcome to Atul's BASIC Interpreter") || l.starts_with("Press CTRL-C to exit.")))
        .collect::<Vec<_>>()
        .join("\n")
}

fn strip_analysis(s: &str) -> String {
    s.lines()
        .filter(|l| !(l.starts_with("Warning on line ") || l.starts_with("Errors were encountered") || l.starts_with("Please fix")))
        .collect::<Vec<_>>()
        .join("\n")
}

fn run_case(ctx: &Ctx, index: u64, rep: &mut Report) {
    let mut rng = ctx.rng(index);
    match ctx.workload.as_str() {
        "inprocess" => {
            let g = prog::generate(&mut rng, &GenOpts { inputs: true, stops: false, ..GenOpts::default() });
            let mut lines: Vec<String> = g.prog.text_lines();
            // duplicates (later definition wins), token-soup lines, shuffling, CR endings
            let mut feats = vec![];
            if rng.chance(1, 3) {
                let k = rng.usize(lines.len());
                let n = g.prog.lines[k].number;
                lines.push(format!("{} PRINT \"dup{}\"", n, rng.below(100)));
                feats.push("duplicate");
            }
            if rng.chance(1, 4) {
                for _ in 0..1 + rng.usize(3) {
                    let body = toks::join(&toks::random_pieces(&mut rng, 8));
                    let l = format!("{} {}", 3 + rng.below(900), body);
                    let skip = l.find(' ').unwrap_or(0);
                    if matches!(abasic_core::verif_hooks::tokenize(&l, skip), Ok(ref t) if !t.is_empty()) {
                        lines.push(l);
                        feats.push("token-soup-line");
                    }
                }
            }
            if rng.chance(1, 5) {
                // two lines that are the same text up to letter case, inside and outside literal text
                let base = 7000 + rng.below(900);
                let (a, b) = *rng.pick(&[("PRINT \"Hello\"", "print \"HELLO\""), ("DATA abc, Def", "data ABC, dEF"), ("REM Note", "rem NOTE"),
                    ("A$ = \"x\" : PRINT A$", "a$ = \"X\" : print a$"), ("PRINT \"same\"", "PRINT \"same\"")]);
                lines.push(format!("{} {}", base, a));
                lines.push(format!("{} {}", base + 1, b));
                feats.push("lines-equal-up-to-case");
            }
            if rng.chance(1, 4) {
                for i in (1..lines.len()).rev() {
                    let j = rng.usize(i + 1);
                    lines.swap(i, j);
                }
                feats.push("shuffled");
            }
            if rng.chance(1, 8) {
                for l in lines.iter_mut() {
                    l.push('\r');
                }
                feats.push("CRLF");
            }
            let text = lines.join("\n");
            let seed = rng.below(1 << 33);
            let a_it = match crate::util::catch(|| SourceFileAnalyzer::analyze(text.clone()).into_interpreter()) {
                Ok(it) => it,
                Err(m) => {
                    ctx.violation(rep, "C05", &format!("analyzer-panic:{}", m.rsplit(" @ ").next().unwrap_or("")), index,
                        format!("analysing a well-formed file panicked: {}", m), json!({"file": lines}));
                    return;
                }
            };
            let mut a = Session::from_interpreter(a_it);
            let mut b = Session::new();
            b.check_invariants = false;
            for l in &lines {
                let r = b.call(Op::Line(l.clone())).res.clone();
                if !r.is_ok() {
                    rep.count("inprocess.line_rejected_skipped_case");
                    return;
                }
            }
            b.check_invariants = true;
            a.keep_log = false;
            b.keep_log = false;
            let la = a.run_line("LIST", 3).printed();
            let lb = b.run_line("LIST", 3).printed();
            if la != lb {
                ctx.violation(rep, "C15", "list-differs", index,
                    format!("program loaded from a file lists as {:?}, typed in it lists as {:?}", crate::util::truncate(&la, 300), crate::util::truncate(&lb, 300)),
                    json!({"file": lines}));
                return;
            }
            a.call(Op::Randomize(seed));
            b.call(Op::Randomize(seed));
            let mut op = Op::Line("RUN".into());
            let mut turns = 0u64;
            let mut ridx = 0;
            loop {
                let ra = a.call(op.clone()).clone();
                let rb = b.call(op.clone()).clone();
                turns += 1;
                let same = ra.outs == rb.outs && ra.res.outcome() == rb.res.outcome() && ra.state == rb.state
                    && match (&a.last_snapshot, &b.last_snapshot) { (Some(x), Some(y)) => runtime_view(x) == runtime_view(y), _ => a.poisoned == b.poisoned };
                if !same {
                    ctx.violation(rep, "C15", "run-differs", index,
                        format!("turn {}: loaded program gives {:?} / {} / {:?}; typed program gives {:?} / {} / {:?}", turns, ra.outs, ra.res.to_json(), ra.state, rb.outs, rb.res.to_json(), rb.state),
                        json!({"file": lines, "replies": g.replies}));
                    return;
                }
                if a.poisoned || !ra.res.is_ok() || turns >= 1200 {
                    break;
                }
                match a.state() {
                    abasic_core::InterpreterState::Running => op = Op::Cont,
                    abasic_core::InterpreterState::AwaitingInput => {
                        let t = exec::reply_at(&g.replies, ridx);
                        ridx += 1;
                        a.call(Op::Input(t.clone()));
                        b.call(Op::Input(t));
                        op = Op::Cont;
                    }
                    _ => break,
                }
            }
            flush_trips(ctx, rep, index, &a, || json!({"file": lines}));
            rep.add("inprocess.turns_compared", turns);
            for f in &feats {
                rep.count(&format!("inprocess.{}", f));
            }
            rep.count("inprocess.files");
            if turns >= 5 {
                rep.nontrivial(hash_str(&text));
            }
        }
        "cli" => {
            let g = prog::generate(&mut rng, &GenOpts { inputs: true, stops: false, rnd: true, kf_permille: 0, failure_permille: 100, ..GenOpts::default() });
            let mut lines = g.prog.text_lines();
            // a third of the files are laid out the way people lay out listings: indented / right-aligned line numbers,
            // trailing blanks (the same text is typed in the interactive session)
            if rng.chance(1, 3) {
                let width = lines.iter().map(|l| l.find(' ').unwrap_or(l.len())).max().unwrap_or(0);
                let style = rng.below(3);
                for l in lines.iter_mut() {
                    let numlen = l.find(' ').unwrap_or(l.len());
                    *l = match style {
                        0 => format!("{}{}", " ".repeat(width - numlen + 1), l),
                        1 => format!("\t{}", l),
                        _ => format!("  {}   ", l),
                    };
                }
                rep.count("cli.indented_files");
            }
            let text = lines.join("\n") + "\n";
            // how many replies does a run consume?
            let model = exec::run_model(&g.prog, 0, &g.replies, 3000);
            if model.capped {
                rep.count("cli.skipped_long_program");
                return;
            }
            let replies: Vec<String> = (0..model.replies_given).map(|k| exec::reply_at(&g.replies, k)).collect();
            if replies.iter().any(|r| r.contains('\n')) {
                return;
            }
            let analysis_errors = SourceFileAnalyzer::analyze(text.clone()).messages().iter().any(|m| matches!(m, DiagnosticMessage::Error(..)));
            let dir = format!("{}/target/tmp/c15-{}-{}", VERIF_DIR, std::process::id(), index);
            let _ = std::fs::create_dir_all(&dir);
            let file = format!("{}/prog.bas", dir);
            if std::fs::write(&file, &text).is_err() {
                rep.inconclusive.push("cannot write scratch program file".into());
                return;
            }
            let Some((banner, prompt)) = learn_banner_and_prompt(&dir) else {
                rep.inconclusive.push("could not learn the interactive banner/prompt of the abasic binary".into());
                let _ = std::fs::remove_dir_all(&dir);
                return;
            };
            let mut warnings_seen = 0u64;
            let mut traces_seen = 0u64;
            for combo in 0..8u32 {
                let (w, t, skip) = (combo & 1 != 0, combo & 2 != 0, combo & 4 != 0);
                if analysis_errors && !skip {
                    rep.count("cli.combos_skipped_analysis_errors");
                    continue;
                }
                let mut opts: Vec<String> = vec![];
                if w {
                    opts.push(if rng.coin() { "-w".into() } else { "--warnings".into() });
                }
                if t {
                    opts.push(if rng.coin() { "-t".into() } else { "--tracing".into() });
                }
                if skip {
                    opts.push("--skip-check".into());
                }
                let mut file_args = opts.clone();
                file_args.push(file.clone());
                let file_stdin = replies.iter().map(|r| format!("{}\n", r)).collect::<String>();
                let inter_stdin = format!("{}RUN\n{}", text, file_stdin);
                let fm = run_child(&file_args, &file_stdin, &dir);
                let im = run_child(&opts, &inter_stdin, &dir);
                let (fm, im) = match (fm, im) {
                    (Ok(a), Ok(b)) => (a, b),
                    (Err(e), _) | (_, Err(e)) => {
                        rep.inconclusive.push(format!("cli child could not be run: {}", e));
                        let _ = std::fs::remove_dir_all(&dir);
                        return;
                    }
                };
                if fm.timed_out || im.timed_out {
                    rep.inconclusive.push("cli child killed by the watchdog".into());
                    continue;
                }
                rep.add("cli.child_runs", 2);
                let fo = fm.stdout.trim_end().to_string();
                let io = strip_learned(&im.stdout, &banner, &prompt).trim_end().to_string();
                let ie = im.stderr.trim_end().to_string();
                // file mode prints its static-analysis messages first (check on), then the run's own records:
                // the run's part is the tail of the same length as the interactive session's stderr
                let fe_full = fm.stderr.trim_end().to_string();
                let fe = if !skip && fe_full.len() >= ie.len() && fe_full.ends_with(&ie) && (fe_full.len() == ie.len() || fe_full[..fe_full.len() - ie.len()].ends_with('\n') || ie.is_empty()) {
                    ie.clone()
                } else {
                    fe_full
                };
                warnings_seen += ie.matches("WARNING").count() as u64;
                traces_seen += io.matches('#').count() as u64;
                if fo != io || fe != ie {
                    let what = if fo != io { "stdout" } else { "stderr" };
                    ctx.violation(rep, "C15", &format!("cli-{}-differs", what), index,
                        format!("options {:?}: `abasic FILE` and the interactive session differ on {}:\n  file mode   stdout {:?} stderr {:?} exit {:?}\n  interactive stdout {:?} stderr {:?} exit {:?}",
                            opts, what, crate::util::truncate(&fo, 300), crate::util::truncate(&fe, 300), fm.code, crate::util::truncate(&io, 300), crate::util::truncate(&ie, 300), im.code),
                        json!({"program": lines, "replies": replies, "options": opts}));
                    let _ = std::fs::remove_dir_all(&dir);
                    return;
                }
                rep.count(&format!("cli.combo.w{}t{}s{}", w as u8, t as u8, skip as u8));
            }
            let _ = std::fs::remove_dir_all(&dir);
            rep.add("cli.runtime_warnings_seen", warnings_seen);
            rep.add("cli.trace_records_seen", traces_seen);
            rep.count("cli.programs");
            if warnings_seen >= 1 && traces_seen >= 2 {
                rep.nontrivial(hash_str(&format!("cli|{}", text)));
            }
            if rep.want_sample() && index % 37 == 0 {
                rep.sample(json!({"program": lines, "replies": replies, "analysis_errors": analysis_errors}));
            }
        }
        other => panic!("unknown workload {}", other),
    }
}

fn finalize(_tier: Tier, rep: &mut Report) -> Finalize {
    Finalize {
        rule: "inprocess: a file of numbered, non-empty, tokenizable lines (a G-prog program, optionally with a duplicated line number, token-soup lines, shuffled order, CR line endings) is loaded through SourceFileAnalyzer::analyze(..).into_interpreter() and, independently, typed line by line into a default interpreter; LIST and every turn of RUN (outputs, result, state, runtime snapshot) must be identical. \
               cli: the real `abasic` binary is run as a child for each program under all 8 combinations of -w / -t / --skip-check (the check-on half only for analysis-clean programs), once as `abasic [opts] FILE` with the replies on stdin and once interactively with lines + RUN + replies on stdin (exactly as many replies as M-prog says are consumed); stdout (minus the banner) and stderr (minus file mode's static-analysis lines) must be equal. \
               Non-trivial: in-process file with >= 5 compared turns; CLI program that showed >= 1 runtime warning and >= 2 trace records. Distinct by hash of the file text.".into(),
        floors: vec![
            ("inprocess.files".into(), 20_000),
            ("inprocess.turns_compared".into(), 300_000),
            ("inprocess.duplicate".into(), 3_000),
            ("cli.child_runs".into(), 1_500),
            ("cli.runtime_warnings_seen".into(), 200),
            ("cli.trace_records_seen".into(), 2_000),
            ("distinct_nontrivial".into(), 10_000),
        ],
        assumptions: vec![
            "the CLI is the debug build of /repo's abasic-cli (hooks off), run with HOME redirected to a scratch directory, NO_COLOR=1 and piped stdio (rustyline then prints no prompt)".into(),
            "exit codes are recorded but not compared (the property does not constrain them); both modes seed the generator with the milliseconds elapsed since a timestamp taken an instant earlier, i.e. 0".into(),
        ],
        exhaustive: false,
        extras: json!({}),
    }
}
