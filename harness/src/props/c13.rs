//! C13 — every token's reported source range is exact.
//!
//! Oracle (tokenizer hook): for a line that tokenizes, ranges are in bounds, on char boundaries,
//! strictly ordered, start and end on non-blank bytes (REM runs to end of line, DATA to the
//! terminating colon / end of line), and re-tokenizing the text of a range alone yields exactly
//! that one token. For a line that fails, the error position is in bounds, on a char boundary and
//! the text before it tokenizes to exactly the tokens reported before the error.

use crate::gen::toks;
use crate::report::Report;
use crate::runner::{Check, Ctx, Finalize, Tier, Workload};
use crate::util::hash_str;
use abasic_core::verif_hooks::{tokenize, TokenInfo};
use serde_json::json;

pub fn check() -> Check {
    Check { id: "C13", plan, run_case, finalize }
}

const BATCH: u64 = 4096;

fn enum_len(_tier: Tier) -> u32 {
    4
}

fn plan(tier: Tier) -> Vec<Workload> {
    let n = toks::atoms(true).len() as u64;
    let total = toks::enumeration_size(n, enum_len(tier));
    vec![
        Workload::new("enum", (total + BATCH - 1) / BATCH),
        // thorough only: a 1/16 sample of the length-5 sequences (the full space is 64^5 ~ 10^9)
        Workload::new("enum5", tier.pick(0, n.pow(5) / 16 / BATCH)),
        Workload::new("random", tier.pick(200_000, 4_000_000) / BATCH),
        Workload::new("text", tier.pick(100_000, 2_000_000) / BATCH),
        // the ranges the analyzer hands to its consumers (language server, CLI) for each file line
        Workload::new("analyzer", tier.pick(60_000, 1_200_000) / 256),
        // where the interpreter says a line failed to tokenize (message, line shown, caret) must not depend on what failed before
        Workload::new("error_position", tier.pick(20_000, 400_000) / 64),
    ]
}

fn kind_of(debug: &str) -> &str {
    debug.split('(').next().unwrap_or(debug)
}

pub fn check_line(line: &str, skip: usize) -> Result<(usize, bool), String> {
    let len = line.len();
    match tokenize(line, skip) {
        Ok(tokens) => {
            let mut prev_end = skip;
            for (i, t) in tokens.iter().enumerate() {
                let r = &t.range;
                if !(r.start < r.end && r.end <= len) {
                    return Err(format!("token #{} {} has range {:?} outside 0..{} or empty", i, t.debug, r, len));
                }
                if !line.is_char_boundary(r.start) || !line.is_char_boundary(r.end) {
                    return Err(format!("token #{} {} range {:?} is not on char boundaries", i, t.debug, r));
                }
                if r.start < prev_end {
                    return Err(format!("token #{} {} range {:?} overlaps or precedes the previous token (ends at {})", i, t.debug, r, prev_end));
                }
                prev_end = r.end;
                let bytes = line.as_bytes();
                if toks::is_blank(bytes[r.start]) {
                    return Err(format!("token #{} {} range {:?} starts on a blank", i, t.debug, r));
                }
                let k = kind_of(&t.debug);
                if k == "Remark" {
                    if r.end != len {
                        return Err(format!("REM token range {:?} does not extend to the end of the line ({})", r, len));
                    }
                } else if k == "Data" {
                    if r.end != len && bytes[r.end] != b':' {
                        return Err(format!("DATA token range {:?} ends neither at end of line nor at its terminating colon", r));
                    }
                } else if toks::is_blank(bytes[r.end - 1]) {
                    return Err(format!("token #{} {} range {:?} ends on a blank", i, t.debug, r));
                }
                // re-tokenization of the range text alone
                let sub = &line[r.clone()];
                match tokenize(sub, 0) {
                    Ok(v) if v.len() == 1 && v[0].debug == t.debug && v[0].range == (0..sub.len()) => {}
                    other => {
                        return Err(format!(
                            "token #{} {} at {:?}: its text {:?} alone tokenizes to {:?}",
                            i, t.debug, r, sub, brief(&other)
                        ));
                    }
                }
            }
            Ok((tokens.len(), true))
        }
        Err(e) => {
            let p = e.range.start;
            if p > len || p < skip {
                return Err(format!("error {} position {} outside the line (len {})", e.kind, p, len));
            }
            if !line.is_char_boundary(p) {
                return Err(format!("error {} position {} is not a char boundary", e.kind, p));
            }
            match tokenize(&line[..p], skip) {
                Ok(v) if v == e.tokens_before => {}
                other => {
                    return Err(format!(
                        "error {} at {}: text before it tokenizes to {:?} but {:?} were reported before the error",
                        e.kind, p, brief(&other), e.tokens_before.iter().map(|t| &t.debug).collect::<Vec<_>>()
                    ));
                }
            }
            Ok((e.tokens_before.len(), false))
        }
    }
}

fn brief(r: &Result<Vec<TokenInfo>, abasic_core::verif_hooks::TokenizeError>) -> String {
    match r {
        Ok(v) => format!("{:?}", v.iter().map(|t| (t.debug.clone(), t.range.clone())).collect::<Vec<_>>()),
        Err(e) => format!("error {} at {:?}", e.kind, e.range),
    }
}

fn observe(ctx: &Ctx, rep: &mut Report, index: u64, line: &str, skip: usize, source: &str) {
    match crate::util::catch(|| check_line(line, skip)) {
        Err(m) => {
            ctx.violation(rep, "C13", &format!("tokenizer-panic:{}", m.rsplit(" @ ").next().unwrap_or("")), index,
                format!("tokenizing {:?} panicked: {}", line, m), json!({"line": line, "skip": skip, "source": source}));
        }
        Ok(Err(m)) => {
            let sig = m.split(|c: char| c.is_ascii_digit()).next().unwrap_or("").chars().take(40).collect::<String>();
            ctx.violation(rep, "C13", &format!("range:{}", sig), index,
                format!("line {:?} (statement text starts at byte {}): {}", line, skip, m), json!({"line": line, "skip": skip, "source": source}));
        }
        Ok(Ok((ntok, ok))) => {
            rep.count("lines");
            rep.add("tokens_checked", ntok as u64);
            if ok {
                rep.count("lines_tokenized");
            } else {
                rep.count("lines_failed");
            }
            let has_blank_or_mb = line.bytes().any(|b| toks::is_blank(b) || b >= 0x80);
            if ntok >= 2 && has_blank_or_mb {
                rep.nontrivial(hash_str(line));
            }
        }
    }
}


/// One file through the analyzer: for every file line the token ranges it reports (`token_types`) and the
/// position it maps a tokenization error to must be exactly the tokenizer's ranges on that very line.
fn analyzer_file(lines: &[String]) -> Result<(u64, u64), String> {
    use abasic_core::{DiagnosticMessage, SourceFileAnalyzer};
    let a = SourceFileAnalyzer::analyze(lines.join("\n"));
    let tt = a.token_types();
    if tt.len() != lines.len() {
        return Err(format!("{} lines of token types for a file of {} lines", tt.len(), lines.len()));
    }
    let (mut ntok, mut nerr) = (0u64, 0u64);
    for (i, line) in lines.iter().enumerate() {
        let got: Vec<std::ops::Range<usize>> = tt[i].iter().map(|t| t.1.clone()).collect();
        let Some((_, end)) = abasic_core::verif_hooks::parse_line_number(line) else {
            if !got.is_empty() {
                return Err(format!("file line {} {:?} has no line number but token ranges {:?}", i, line, got));
            }
            continue;
        };
        if line.is_empty() {
            continue;
        }
        let mut want = vec![0..end];
        let hook = tokenize(line, end);
        match &hook {
            Ok(tokens) => want.extend(tokens.iter().map(|t| t.range.clone())),
            Err(_) => {}
        }
        if got != want {
            return Err(format!("file line {} {:?}: the analyzer reports token ranges {:?}, the tokenizer on that line gives {:?}", i, line, got, want));
        }
        ntok += got.len() as u64;
        if let Err(e) = &hook {
            // the tokenization error of this line must be mapped to the tokenizer's error range
            let mapped: Vec<_> = a.messages().iter().filter(|m| matches!(m, DiagnosticMessage::Error(l, _) if *l == i))
                .filter_map(|m| a.source_file_map().map_to_source(m)).collect();
            // (the hook reports an illegal character as one byte; the analyzer's range covers the whole character)
            let char_end = line[e.range.start.min(line.len())..].chars().next().map(|c| e.range.start + c.len_utf8()).unwrap_or(e.range.end);
            if !mapped.iter().any(|(l, r)| *l == i && r.start == e.range.start && (r.end == e.range.end || r.end == char_end)) {
                return Err(format!("file line {} {:?}: tokenization error {} at {:?} is mapped to {:?}", i, line, e.kind, e.range, mapped));
            }
            nerr += 1;
        }
    }
    Ok((ntok, nerr))
}

fn run_case(ctx: &Ctx, index: u64, rep: &mut Report) {
    match ctx.workload.as_str() {
        "enum" => {
            let atoms = toks::atoms(true);
            let n = atoms.len() as u64;
            let maxlen = enum_len(ctx.tier);
            let total = toks::enumeration_size(n, maxlen);
            let lo = index * BATCH;
            let hi = (lo + BATCH).min(total);
            for e in lo..hi {
                let seq = toks::enumeration_sequence(e, n, maxlen);
                let line: String = seq.iter().map(|i| toks::join(&atoms[*i])).collect();
                observe(ctx, rep, index, &line, 0, "enum");
                if e == lo && index % 997 == 0 {
                    rep.sample(json!({"workload":"enum","line":line,"tokens": format!("{:?}", tokenize(&line,0).map(|v| v.into_iter().map(|t|(t.debug,t.range)).collect::<Vec<_>>()).map_err(|e| (e.kind, e.range)))}));
                }
            }
            rep.evaluations += (hi - lo).saturating_sub(1);
            rep.add("enum.lines", hi - lo);
        }
        "enum5" => {
            let atoms = toks::atoms(true);
            let n = atoms.len() as u64;
            let mut rng = ctx.rng(index);
            for _ in 0..BATCH {
                let line: String = (0..5).map(|_| toks::join(&atoms[rng.usize(n as usize)])).collect();
                observe(ctx, rep, index, &line, 0, "enum5");
            }
            rep.evaluations += BATCH - 1;
            rep.add("enum5.lines", BATCH);
        }
        "random" => {
            let mut rng = ctx.rng(index);
            for _ in 0..BATCH {
                let pieces = toks::random_pieces(&mut rng, 14);
                let mut line = toks::join(&pieces);
                let mut skip = 0;
                if rng.chance(1, 3) {
                    // with a line-number prefix, tokenized from behind it (as the interpreter does)
                    let prefix = format!("{}{}", rng.pick(&["10", " 20", "007", "65535", "18446744073709551615"]), rng.pick(&["", " ", "  "]));
                    if let Some((_, end)) = abasic_core::verif_hooks::parse_line_number(&format!("{}{}", prefix, line)) {
                        skip = end;
                    }
                    line = format!("{}{}", prefix, line);
                }
                observe(ctx, rep, index, &line, skip, "random");
            }
            rep.evaluations += BATCH - 1;
        }
        "text" => {
            let mut rng = ctx.rng(index);
            for _ in 0..BATCH {
                let line = crate::gen::text::random_line(&mut rng, 60);
                observe(ctx, rep, index, &line, 0, "text");
            }
            rep.evaluations += BATCH - 1;
        }
        "analyzer" => {
            let mut rng = ctx.rng(index);
            for _ in 0..256 {
                let n = 1 + rng.usize(5);
                let mut lines = vec![];
                for k in 0..n {
                    let body = if rng.chance(1, 5) { crate::gen::text::random_line(&mut rng, 30).replace('\n', " ") } else { toks::join(&toks::random_pieces(&mut rng, 8)) };
                    let indent = *rng.pick(&["", "", "", " ", "  ", "\t", " \t ", "\u{feff}", "\u{a0}"]);
                    let number = match rng.below(8) { 0 => "007".to_string(), 1 => "18446744073709551615".to_string(), 2 => "18446744073709551616".to_string(), 3 => String::new(), _ => (10 * (k + 1)).to_string() };
                    let sep = *rng.pick(&[" ", "", "  ", "\t"]);
                    let tail = *rng.pick(&["", "", "", " ", "\r", "  \t"]);
                    lines.push(format!("{}{}{}{}{}", indent, number, sep, body, tail));
                }
                match crate::util::catch(|| analyzer_file(&lines)) {
                    Err(m) => ctx.violation(rep, "C13", &format!("analyzer-panic:{}", m.rsplit(" @ ").next().unwrap_or("")), index,
                        format!("analyzing {:?} panicked: {}", lines, m), json!({"file": lines})),
                    Ok(Err(m)) => {
                        let sig = if m.contains("mapped to") { "analyzer-error-range" } else { "analyzer-token-ranges" };
                        ctx.violation(rep, "C13", sig, index, m, json!({"file": lines}));
                    }
                    Ok(Ok((ntok, nerr))) => {
                        rep.add("analyzer.tokens_checked", ntok);
                        rep.add("analyzer.error_ranges_checked", nerr);
                        rep.count("analyzer.files");
                        if lines.iter().any(|l| l.starts_with(|c: char| c == ' ' || c == '\t')) {
                            rep.count("analyzer.files_with_indented_line");
                        }
                    }
                }
            }
            rep.evaluations += 255;
        }
        "error_position" => {
            use crate::drive::{Op, Res, Session};
            let mut rng = ctx.rng(index);
            for _ in 0..64 {
                // a line that does not tokenize
                let bad = loop {
                    let mut l = if rng.coin() { toks::join(&toks::random_pieces(&mut rng, 6)) } else { crate::gen::text::random_line(&mut rng, 12) };
                    l.push_str(rng.s(&[" %", " \"open", " 1..2", " é", ""]));
                    if l.contains('\n') || l.contains('\r') {
                        continue;
                    }
                    // (a line whose first word is an immediate-mode command is not tokenized at all)
                    let first_word = l.split_whitespace().next().unwrap_or("").to_uppercase();
                    if ["RUN", "LIST", "NEW", "CONT", "TRACE", "NOTRACE", "INTERNALS", "STATS"].contains(&first_word.as_str()) {
                        continue;
                    }
                    let l = if rng.chance(1, 4) { format!("{} {}", 10 * (1 + rng.below(5)), l) } else { l };
                    let skip = abasic_core::verif_hooks::parse_line_number(&l).map(|x| x.1).unwrap_or(0);
                    if let Err(e) = tokenize(&l, skip) {
                        break (l, e);
                    }
                };
                let (line, hook_err) = bad;
                let mut fresh = Session::new();
                fresh.keep_log = false;
                let want = fresh.call(Op::Line(line.clone())).res.clone();
                // the same line after a history that ended in a run-time error (in a program line, or in a typed line)
                let mut used = Session::new();
                used.keep_log = false;
                match rng.below(3) {
                    0 => {
                        used.call(Op::Line("10 PRINT 1".into()));
                        used.call(Op::Line("20 PRINT 1 : PRINT 1 / 0".into()));
                        used.run_line("RUN", 20);
                    }
                    1 => {
                        used.run_line("PRINT 1 : X = \"s\"", 10);
                    }
                    _ => {
                        used.call(Op::Line("10 FOR I = 1 TO 3 : GOSUB 100".into()));
                        used.call(Op::Line("100 RETURN : RETURN".into()));
                        used.run_line("RUN", 40);
                        used.run_line("GOTO 999", 5);
                    }
                }
                used.settle();
                if used.poisoned {
                    continue;
                }
                let got = used.call(Op::Line(line.clone())).res.clone();
                let view = |r: &Res| match r {
                    Res::Err(e) => format!("{} | line {:?} | {:?}", e.display, e.line, e.caret),
                    other => format!("{:?}", other.outcome()),
                };
                rep.count("error_position.lines");
                match (&want, &got) {
                    (Res::Err(w), Res::Err(_)) => {
                        if view(&want) != view(&got) {
                            ctx.violation(rep, "C13", "error-position-depends-on-history", index,
                                format!("line {:?} does not tokenize ({} at {:?}); a fresh interpreter reports {}; after an earlier run-time error the interpreter reports {}",
                                    line, hook_err.kind, hook_err.range, view(&want), view(&got)), json!({"line": line}));
                        } else if w.line.is_some() {
                            ctx.violation(rep, "C13", "tokenization-error-names-a-program-line", index,
                                format!("line {:?} does not tokenize, yet the error names program line {:?}", line, w.line), json!({"line": line}));
                        }
                    }
                    _ => {
                        ctx.violation(rep, "C13", "untokenizable-line-accepted", index,
                            format!("line {:?} does not tokenize ({}), but entering it gave {} (fresh) / {} (used)", line, hook_err.kind, view(&want), view(&got)), json!({"line": line}));
                    }
                }
            }
            rep.evaluations += 63;
        }
        other => panic!("unknown workload {}", other),
    }
}

fn finalize(tier: Tier, rep: &mut Report) -> Finalize {
    let n = toks::atoms(true).len() as u64;
    let total = toks::enumeration_size(n, enum_len(tier));
    let exhaustive = rep.get("enum.lines") == total;
    Finalize {
        rule: format!(
            "enum: every concatenation of 1..={} atoms from a {}-atom alphabet (keywords, operators, identifiers incl. keyword-bearing ones, numerals, string literals, blanks, REM, DATA forms, multi-byte and illegal characters, an unpaired quote); \
             random: G-tok lines of up to 14 atoms, a third with a line-number prefix; text: arbitrary UTF-8 lines; error_position: a line that does not tokenize is entered into a fresh interpreter and into one whose last statement ended in a run-time error: message, line named and caret lines must be identical and name no program line; analyzer: files of 1-5 lines (indentation, odd line numbers, trailing blanks / CR) through SourceFileAnalyzer: the token ranges it reports per file line and the range it maps a tokenization error to must equal the tokenizer's on that line. A case is one line; it is non-trivial when at least 2 tokens were range-checked and the line contains a blank or a multi-byte character; distinct by hash of the line text (lower bound: hash recording is capped per worker).",
            enum_len(tier), n),
        floors: vec![
            ("lines_tokenized".into(), 50_000),
            ("lines_failed".into(), 5_000),
            ("tokens_checked".into(), 200_000),
            ("analyzer.tokens_checked".into(), 100_000),
            ("error_position.lines".into(), 15_000),
            ("analyzer.error_ranges_checked".into(), 2_000),
            ("analyzer.files_with_indented_line".into(), 5_000),
            ("distinct_nontrivial".into(), 10_000),
        ],
        assumptions: vec!["the hook `verif_hooks::tokenize` calls the same Tokenizer the interpreter uses; that the analyzer passes the same ranges on is checked by the analyzer workload".into()],
        exhaustive,
        extras: json!({"enumeration": {"atoms": n, "max_len": enum_len(tier), "sequences": total, "complete": exhaustive}}),
    }
}
