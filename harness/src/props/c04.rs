//! C04 — the program store is a last-writer-wins map, listed and run in line order.
//!
//! Oracle: M-store (BTreeMap<u64, canonical text>). Every stored payload is `PRINT "<uid>"` with a uid unique
//! in the history (so each listed/printed line identifies the edit it came from), or a G-tok line whose
//! canonical listing is obtained by entering that single line into a fresh interpreter.

use crate::drive::{flush_trips, Op, Session};
use crate::gen::toks;
use crate::report::Report;
use crate::runner::{Check, Ctx, Finalize, Tier, Workload};
use crate::util::{hash_str, Rng};
use serde_json::json;
use std::collections::BTreeMap;

pub fn check() -> Check {
    Check { id: "C04", plan, run_case, finalize }
}

fn plan(tier: Tier) -> Vec<Workload> {
    vec![
        Workload::new("histories", tier.pick(100_000, 2_000_000)),
        Workload::new("histories_ship", tier.pick(30_000, 600_000)).ship(),
    ]
}

const HOT: &[u64] = &[0, 1, 7, 10, 11, 4294967296, 9223372036854775808, 18446744073709551614, 18446744073709551615];

fn key(rng: &mut Rng) -> u64 {
    match rng.below(10) {
        0..=6 => *rng.pick(HOT),
        7 => rng.below(30),
        _ => rng.next_u64(),
    }
}

fn spell(rng: &mut Rng, n: u64) -> String {
    match rng.below(6) {
        0 => format!("0{}", n),
        1 => format!("  {}", n),
        2 => format!("\t{}", n),
        3 => format!("000{}", n),
        _ => n.to_string(),
    }
}

/// canonical listing text of a statement text, or None if it does not tokenize / is empty
fn canonical(stmt: &str) -> Option<String> {
    let mut s = Session::new();
    s.check_invariants = false;
    let r = s.run_line(&format!("1 {}", stmt), 3);
    if !r.res.is_ok() {
        return None;
    }
    let l = s.run_line("LIST", 3).printed();
    if l.is_empty() {
        return None;
    }
    l.strip_prefix("1 ").and_then(|x| x.strip_suffix('\n')).map(|x| x.to_string())
}

fn run_case(ctx: &Ctx, index: u64, rep: &mut Report) {
    let mut rng = ctx.rng(index);
    let print_only = rng.chance(7, 10);
    let mut model: BTreeMap<u64, String> = BTreeMap::new();
    let mut sess = Session::new();
    sess.keep_log = false;
    let mut uid = 0u64;
    let mut hist: Vec<String> = vec![];
    let n_ops = 5 + rng.usize(56);
    let (mut adds, mut replaces, mut deletes, mut failed, mut runs, mut lists) = (0, 0, 0, 0, 0, 0);
    let mut colon_only = 0u64;
    let mut extremes = false;
    for _ in 0..n_ops {
        if sess.poisoned {
            break;
        }
        let op = rng.below(20);
        let n = key(&mut rng);
        if n >= (1 << 63) {
            extremes = true;
        }
        match op {
            0..=8 => {
                // add / replace
                let (stmt, canon) = if print_only || rng.coin() {
                    uid += 1;
                    let u = format!("u{}", uid);
                    (format!("{} \"{}\"", rng.s(&["PRINT", "print", "?", "P R I N T"]), u), Some(format!("{} \"{}\"", if rng.coin() { "PRINT" } else { "PRINT" }, u)))
                } else if rng.chance(1, 8) {
                    // a line that holds nothing but statement separators is still a stored line (it is not a deletion);
                    // its canonical text is known without asking the real interpreter
                    let k = 1 + rng.usize(3);
                    let sep = *rng.pick(&["", " ", "  "]);
                    colon_only += 1;
                    (vec![":"; k].join(sep), Some(vec![":"; k].join(" ")))
                } else if rng.chance(1, 6) {
                    // a numbered line whose whole text spells an immediate-mode command is still a program line
                    // (the symbol LIST, RUN, ...), it is stored, not executed
                    let (s, c) = *rng.pick(&[("LIST", "LIST"), ("RUN", "RUN"), ("run", "RUN"), ("NEW", "NEW"), ("CONT", "CONT"), ("TRACE", "TRACE"),
                        ("NOTRACE", "NOT RACE"), ("l i s t", "LIST"), ("STATS", "STATS"), ("List ", "LIST"), ("R U N", "RUN"), ("new", "NEW")]);
                    (s.to_string(), Some(c.to_string()))
                } else {
                    let s = toks::join(&toks::random_pieces(&mut rng, 6));
                    let c = canonical(&s);
                    (s, c)
                };
                // `?` lists as `?`: recompute canonical through the real listing for non-PRINT spellings
                let canon = if stmt.starts_with('?') { canonical(&stmt) } else { canon };
                let line = format!("{}{}{}", spell(&mut rng, n), rng.s(&[" ", "", "  "]), stmt);
                // a statement text starting with a digit would extend the line number: keep a blank
                let line = if stmt.chars().next().map(|c| c.is_ascii_digit()).unwrap_or(false) { format!("{} {}", spell(&mut rng, n), stmt) } else { line };
                let rec = sess.call(Op::Line(line.clone())).clone();
                hist.push(line.clone());
                match canon {
                    Some(c) => {
                        if !rec.res.is_ok() {
                            ctx.violation(rep, "C04", "valid-line-rejected", index, format!("line {:?} was rejected: {}", line, rec.res.to_json()), json!({"history": hist}));
                            return;
                        }
                        if model.insert(n, c).is_some() {
                            replaces += 1;
                        } else {
                            adds += 1;
                        }
                    }
                    None => {
                        // does not tokenize, or tokenizes to nothing (= deletion)
                        if rec.res.is_ok() {
                            model.remove(&n);
                            deletes += 1;
                        } else {
                            failed += 1;
                        }
                    }
                }
            }
            9..=11 => {
                let line = format!("{}{}", spell(&mut rng, n), rng.s(&["", " ", "   ", "\t"]));
                sess.call(Op::Line(line.clone()));
                hist.push(line);
                if model.remove(&n).is_some() {
                    deletes += 1;
                }
            }
            12..=13 => {
                let line = format!("{} {}", spell(&mut rng, n), rng.s(&["PRINT \"", "é", "1.2.3", "PRINT 1 \u{7f}", "A$ = \"open"]));
                let rec = sess.call(Op::Line(line.clone())).clone();
                hist.push(line.clone());
                if rec.res.is_ok() {
                    ctx.violation(rep, "C04", "bad-line-accepted", index, format!("untokenizable line {:?} was accepted", line), json!({"history": hist}));
                    return;
                }
                failed += 1;
            }
            14 => {
                // a numeral beyond u64 is not a line number: the text is executed (and fails), nothing is stored
                let line = format!("{} PRINT \"never\"", rng.s(&["18446744073709551616", "99999999999999999999999999", "18446744073709551615000"]));
                sess.call(Op::Line(line.clone()));
                hist.push(line);
                failed += 1;
            }
            15..=17 => {
                lists += 1;
            }
            _ => {
                if print_only {
                    // RUN prints the uids in ascending line order and terminates
                    let cap = model.len() as u64 * 3 + 5;
                    let out = sess.run_line("RUN", cap);
                    hist.push("RUN".into());
                    runs += 1;
                    let want: String = model.values().map(|t| {
                        let u = t.split('"').nth(1).unwrap_or("");
                        format!("{}\n", u)
                    }).collect();
                    if out.capped || !out.res.is_ok() || out.printed() != want {
                        ctx.violation(rep, "C04", "run-order", index,
                            format!("RUN printed {:?} (result {}, capped {}) but the stored lines in ascending order print {:?}", out.printed(), out.res.to_json(), out.capped, want),
                            json!({"history": hist, "model": model}));
                        return;
                    }
                    sess.settle();
                }
            }
        }
        // LIST after every op
        if !sess.poisoned {
            sess.settle();
            let l = sess.run_line("LIST", 5).printed();
            let want: String = model.iter().map(|(n, t)| format!("{} {}\n", n, t)).collect();
            if l != want {
                ctx.violation(rep, "C04", "list-differs", index,
                    format!("after {:?}: LIST shows {:?} but the last-writer-wins map holds {:?}", hist.last(), crate::util::truncate(&l, 400), crate::util::truncate(&want, 400)),
                    json!({"history": hist, "model": model}));
                return;
            }
            rep.count("list_comparisons");
        }
    }
    let _ = lists;
    flush_trips(ctx, rep, index, &sess, || json!({"history": hist}));
    rep.add("ops.add", adds);
    rep.add("ops.replace", replaces);
    rep.add("ops.delete", deletes);
    rep.add("ops.failed_edit", failed);
    rep.add("ops.run", runs);
    rep.add("ops.colon_only_line", colon_only);
    rep.max("max_lines_stored", model.len() as u64);
    if extremes {
        rep.count("histories_with_u64_extremes");
    }
    if replaces > 0 && deletes > 0 && failed > 0 && runs > 0 {
        rep.nontrivial(hash_str(&hist.join("\n")));
    }
    if rep.want_sample() && index % 1999 == 0 {
        rep.sample(json!({"history": hist, "final_listing": model.iter().map(|(n, t)| format!("{} {}", n, t)).collect::<Vec<_>>()}));
    }
}

fn finalize(_tier: Tier, rep: &mut Report) -> Finalize {
    Finalize {
        rule: "A case is a history of 5-60 operations over a hot set of line numbers {0, 1, 7, 10, 11, 2^32, 2^63, 2^64-2, 2^64-1} plus random u64 in several spellings (leading zeros, blanks, tab): add / replace (PRINT \"<unique id>\" in four spellings, or a random token line whose canonical listing comes from a fresh interpreter), delete (bare number with or without blanks), failed edits (untokenizable text, numerals beyond u64), RUN (print-only histories). After EVERY operation LIST is compared with the last-writer-wins map, RUN must print the ids in ascending order within 3 x #lines turns; the snapshot tripwire compares the two internal indexes after every call. Monitor and ship builds. \
               Non-trivial: the history contains a replace, a delete, a failed edit and a RUN. Distinct by hash of the history.".into(),
        floors: vec![
            ("list_comparisons".into(), 300_000),
            ("ops.replace".into(), 20_000),
            ("ops.delete".into(), 10_000),
            ("ops.failed_edit".into(), 10_000),
            ("ops.run".into(), 5_000),
            ("histories_with_u64_extremes".into(), 5_000),
            ("distinct_nontrivial".into(), 3_000),
        ],
        assumptions: vec!["the canonical listing of a random token line is taken from a fresh real interpreter (LIST fidelity itself is C14's subject)".into()],
        exhaustive: false,
        extras: json!({}),
    }
}
