//! C11 — editing the program invalidates every runtime reference into it.
//!
//! Snapshot oracle + probes: after a successful numbered-line edit at any suspension point the snapshot holds
//! no breakpoint, frames, loops, functions or data cursor while variables/arrays are unchanged; CONT / RETURN /
//! NEXT v / READ / FN call / GOTO behave as specified (each probe on its own replay of the history). A rejected
//! edit invalidates nothing and CONT continues exactly like the twin session that never saw the edit.

use crate::drive::{flush_trips, Op, Out, Res, Session};
use crate::exec;
use crate::gen::prog::{self, GenOpts};
use crate::report::Report;
use crate::runner::{Check, Ctx, Finalize, Tier, Workload};
use crate::util::hash_str;
use abasic_core::verif_hooks::Snapshot;
use abasic_core::InterpreterState;
use serde_json::json;

pub fn check() -> Check {
    Check { id: "C11", plan, run_case, finalize }
}

fn plan(tier: Tier) -> Vec<Workload> {
    vec![Workload::new("edits", tier.pick(60_000, 1_000_000))]
}

fn replay(ops: &[Op]) -> Session {
    let mut s = Session::new();
    s.keep_log = false;
    for op in ops {
        if s.poisoned || !s.is_legal(op) {
            break;
        }
        s.call(op.clone());
    }
    s
}

fn s_free_line(sess: &Session) -> u64 {
    let lines = sess.snapshot().map_lines;
    let mut n = lines.last().copied().unwrap_or(10).saturating_add(7);
    while lines.contains(&n) {
        // (the last line can be u64::MAX: search downwards then)
        n = if n == u64::MAX { 5 } else { n + 1 };
    }
    n
}

fn refs_view(s: &Snapshot) -> String {
    // Frames left over without a pending breakpoint are not a live reference: every host line clears them
    // before it executes (so neither RETURN nor CONT can ever reach them). They are left out of the view.
    let stack = if s.breakpoint.is_some() { format!("{:?}", s.stack) } else { "[not resumable]".to_string() };
    format!("bp={:?} stack={} loops={:?} fns={:?} data={:?}", s.breakpoint, stack, s.loops, s.functions, s.data_cursor)
}
fn data_view(s: &Snapshot) -> String {
    format!("vars={:?} arrays={:?}", s.variables, s.arrays)
}

fn printed(outs: &[Out]) -> String {
    outs.iter().filter_map(|o| if let Out::Print(p) = o { Some(p.as_str()) } else { None }).collect()
}

/// A fresh interpreter holding the numbered lines of `ops`, the variables, arrays and generator state of `snap`.
/// None when a value cannot be written as a literal (NaN, infinities, strings containing a quote).
fn fresh_twin(ops: &[Op], snap: &Snapshot) -> Option<Session> {
    let mut s = Session::new();
    s.keep_log = false;
    s.check_invariants = false;
    for op in ops {
        if let Op::Line(l) = op {
            if abasic_core::verif_hooks::parse_line_number(l).is_some() {
                s.call(Op::Line(l.clone()));
            }
        }
    }
    // a reply handed over before the break and not consumed yet stays with the interpreter (CONT would use it);
    // a fresh interpreter cannot be put into that state from outside, so such cases are not compared
    if snap.pending_input.is_some() {
        return None;
    }
    let literal = |kind: char, text: &str| -> Option<String> {
        if kind == 'S' {
            if text.contains('"') || text.contains('\n') || text.contains('\r') { None } else { Some(format!("\"{}\"", text)) }
        } else {
            let v: f64 = text.parse().ok()?;
            if !v.is_finite() {
                return None;
            }
            let shown = format!("{}", v.abs());
            Some(if v.is_sign_negative() { format!("-{}", shown) } else { shown })
        }
    };
    for (name, kind, text) in &snap.variables {
        let r = s.run_line(&format!("{} = {}", name, literal(*kind, text)?), 5);
        if !r.res.is_ok() {
            return None;
        }
    }
    for a in &snap.arrays {
        let dims: Vec<String> = a.dimensions.iter().map(|d| (d - 1).to_string()).collect();
        if !s.run_line(&format!("DIM {}({})", a.name, dims.join(",")), 5).res.is_ok() {
            return None;
        }
        for (lin, text) in &a.non_default {
            let mut rest = *lin;
            let mut idx = vec![];
            for d in &a.dimensions {
                idx.push((rest % d).to_string());
                rest /= d;
            }
            if !s.run_line(&format!("{}({}) = {}", a.name, idx.join(","), literal(a.kind, text)?), 5).res.is_ok() {
                return None;
            }
        }
    }
    s.settle();
    s.call(Op::Randomize(snap.rng_state));
    // the twin must really be in the same data state (and hold no runtime reference)
    let t = s.snapshot();
    if data_view(&t) != data_view(snap) || t.rng_state != snap.rng_state {
        return None;
    }
    Some(s)
}

/// A program of one line that, when suspended, holds a breakpoint, an open loop, a function and a DATA cursor.
fn one_line_program(rng: &mut crate::util::Rng) -> prog::Generated {
    use crate::model::ast::*;
    let mut stmts = vec![
        Stmt::Data(vec![DataItem::Str("a".into(), false), DataItem::Str("b".into(), true), DataItem::Num("3".into())]),
        Stmt::Def { name: "FNA".into(), params: vec!["X".into()], body: bin(Bin::Add, var("X"), num(1)) },
        Stmt::Read(vec![LValue::scalar("A$")]),
        Stmt::For { var: "I".into(), from: num(1), to: num(3), step: None },
    ];
    stmts.push(if rng.coin() { Stmt::Stop } else { Stmt::Input(LValue::scalar("X")) });
    stmts.push(Stmt::Next("I".into()));
    let mut g = prog::Generated::default();
    g.prog.lines.push(Line { number: *rng.pick(&[0u64, 10, 65535, u64::MAX]), stmts });
    g.replies = vec!["1".into()];
    g.features.insert("one-line-program");
    g
}

fn run_case(ctx: &Ctx, index: u64, rep: &mut Report) {
    let mut rng = ctx.rng(index);
    let opts = GenOpts { inputs: true, stops: true, kf_permille: 0, failure_permille: 100, ..GenOpts::default() };
    let g = prog::generate(&mut rng, &opts);
    // one program in sixty is padded to 32 700-32 790 tokens (330 long PRINT lines at high line numbers that are never
    // reached): limits on the size of a program, if any, are met by the edit
    let padding: Vec<String> = if rng.chance(1, 60) {
        let mut v = vec![];
        let mut total = 0usize;
        let target = 32_700 + rng.usize(90);
        let mut n = 5_000_000u64;
        while total < target {
            let k = (target - total).min(99).max(3);
            // PRINT 1;1;...: 1 + (2j - 1) tokens
            let j = (k / 2).max(1);
            v.push(format!("{} PRINT {}", n, vec!["1"; j].join(";")));
            total += 2 * j;
            n += 10;
        }
        rep.count("padded_programs");
        v
    } else {
        vec![]
    };
    // one program in eight consists of a single line: the edit that deletes it empties the program
    let g = if rng.chance(1, 8) { one_line_program(&mut rng) } else { g };
    let seed = rng.below(1 << 33);
    // ---- drive to a suspension point, recording concrete ops
    let mut sess = Session::new();
    sess.call(Op::Randomize(seed));
    if exec::load_program(&mut sess, &g.prog).is_err() {
        return;
    }
    for l in &padding {
        sess.call(Op::Line(l.clone()));
    }
    let mode = rng.below(4);
    let k = 1 + rng.below(40);
    let mut ridx = 0;
    // RUN is not the only way into a program: GOTO / GOSUB typed at the prompt build the same runtime references
    let first = g.prog.lines.first().map(|l| l.number).unwrap_or(10);
    let start = match rng.below(6) {
        0 => format!("GOTO {}", first),
        1 => format!("GOSUB {}", first),
        _ => "RUN".to_string(),
    };
    rep.count(&format!("start.{}", start.split(' ').next().unwrap_or("")));
    sess.call(Op::Line(start));
    let mut turns = 1;
    let suspension: &'static str;
    loop {
        if sess.poisoned {
            flush_trips(ctx, rep, index, &sess, || exec::program_json(&g.prog));
            return;
        }
        let last = sess.log.last().unwrap();
        if !last.res.is_ok() {
            suspension = "idle-after-error";
            break;
        }
        match sess.state() {
            InterpreterState::Idle => {
                suspension = if last.outs.iter().any(|o| matches!(o, Out::Break(_))) { "STOP" } else { "idle-after-end" };
                break;
            }
            InterpreterState::AwaitingInput => {
                if mode == 3 || (mode == 2 && turns >= k) {
                    sess.call(Op::Break);
                    suspension = "break-while-awaiting-input";
                    break;
                }
                let t = exec::reply_at(&g.replies, ridx);
                ridx += 1;
                sess.call(Op::Input(t));
            }
            InterpreterState::Running => {
                if (mode == 2 && turns >= k) || turns >= 600 {
                    sess.call(Op::Break);
                    suspension = "host-break";
                    break;
                }
                sess.call(Op::Cont);
                turns += 1;
            }
            InterpreterState::NewInterpreterRequested => {
                return;
            }
        }
    }
    // state built purely in direct mode (no RUN since the last reset) must be invalidated by an edit as well
    if sess.state() == InterpreterState::Idle && rng.chance(1, 4) {
        let probes = ["FOR Q1 = 1 TO 5", "READ A$", "FOR Q2 = 3 TO 1 STEP -1", "READ B$"];
        for _ in 0..1 + rng.usize(2) {
            let l = *rng.pick(&probes);
            sess.run_line(l, 20);
            if sess.poisoned {
                flush_trips(ctx, rep, index, &sess, || exec::program_json(&g.prog));
                return;
            }
            sess.settle();
        }
        rep.count("direct_mode_state_before_edit");
    }
    // a second round: a harmless edit, then back into the program by GOTO (not RUN), suspended again
    if rng.chance(1, 5) {
        let n = s_free_line(&sess);
        sess.call(Op::Line(format!("{} REM first edit", n)));
        let target = first;
        sess.run_line(&format!("GOTO {}", target), 1);
        let mut guard = 0;
        while !sess.poisoned && sess.state() == InterpreterState::Running && guard < k {
            sess.call(Op::Cont);
            guard += 1;
        }
        if sess.poisoned {
            flush_trips(ctx, rep, index, &sess, || exec::program_json(&g.prog));
            return;
        }
        sess.settle();
        rep.count("two_rounds");
    }
    let s0 = sess.snapshot();
    let history: Vec<Op> = sess.log.iter().map(|r| r.op.clone()).collect();
    let lines: Vec<u64> = s0.map_lines.clone();
    if lines.is_empty() {
        return;
    }
    // ---- choose the edit
    let bp_line = s0.breakpoint.as_ref().and_then(|b| b.line);
    let loop_line = s0.loops.last().and_then(|l| l.1.line);
    let frame_line = s0.stack.last().and_then(|f| f.0.line);
    let def_line = s0.functions.first().and_then(|f| f.2.line);
    let data_line = s0.data_cursor.as_ref().and_then(|d| d.0.get(d.1).and_then(|c| c.0.line));
    let other_line = *rng.pick(&lines);
    let new_line = loop {
        let n = rng.below(lines.last().copied().unwrap_or(10).saturating_add(20));
        if !lines.contains(&n) {
            break n;
        }
    };
    let choices: Vec<(&'static str, String, Option<u64>)> = {
        let mut v: Vec<(&'static str, String, Option<u64>)> = vec![
            ("add-new-line", format!("{} PRINT \"new\"", new_line), None),
            ("replace-other-line", format!("{} PRINT \"replaced\"", other_line), None),
            ("delete-other-line", format!("{}", other_line), Some(other_line)),
            ("failed-edit-existing", format!("{} PRINT \"oops", other_line), None),
            ("failed-edit-new", format!("{} é", new_line), None),
        ];
        if !padding.is_empty() {
            // a much longer replacement for an existing line of a program that is already very large
            let long = format!("{} PRINT {}", other_line, vec!["2"; 120].join(";"));
            for _ in 0..6 {
                v.push(("replace-line-with-much-longer-one", long.clone(), None));
            }
        }
        if let Some(a) = s0.arrays.first() {
            // the text of an entered line is only text: naming an existing array in a DIM does not touch the array
            v.push(("add-line-with-DIM-of-existing-array", format!("{} DIM {}(5)", new_line, a.name), None));
            v.push(("replace-line-with-DIM-of-existing-array", format!("{} IF 0 THEN DIM {}(1,1)", other_line, a.name), None));
        }
        if let Some(l) = bp_line {
            v.push(("replace-breakpoint-line", format!("{} PRINT \"bp\"", l), None));
            v.push(("delete-breakpoint-line", format!("  {}  ", l), Some(l)));
        }
        if let Some(l) = loop_line {
            v.push(("delete-FOR-line", format!("{}", l), Some(l)));
        }
        if let Some(l) = frame_line {
            v.push(("delete-GOSUB-return-line", format!("{}", l), Some(l)));
        }
        if let Some(l) = def_line {
            v.push(("delete-DEF-line", format!("{}", l), Some(l)));
        }
        if let Some(l) = data_line {
            v.push(("delete-current-DATA-line", format!("{}", l), Some(l)));
            v.push(("replace-current-DATA-line", format!("{} DATA \"fresh\", 5", l), None));
        }
        v
    };
    let (edit_kind, edit_text, deleted) = choices[rng.usize(choices.len())].clone();
    let expected_rejection = edit_kind.starts_with("failed");
    let case = || json!({"program": exec::program_json(&g.prog), "replies": g.replies, "suspension": suspension, "turns_before": turns,
        "edit": edit_text, "edit_kind": edit_kind, "state_before_edit": refs_view(&s0)});
    let res = sess.call(Op::Line(edit_text.clone())).res.clone();
    if sess.poisoned {
        flush_trips(ctx, rep, index, &sess, case);
        return;
    }
    let s1 = sess.snapshot();
    rep.count(&format!("suspension.{}", suspension));
    if s0.map_lines.len() == 1 && deleted.is_some() {
        rep.count("edit.deleted_the_only_line");
    }
    rep.count(&format!("edit.{}", edit_kind));
    let had = [(s0.breakpoint.is_some(), "breakpoint"), (!s0.stack.is_empty(), "gosub-frame"), (!s0.loops.is_empty(), "open-loop"),
        (!s0.functions.is_empty(), "function"), (s0.data_cursor.as_ref().map(|d| d.1 > 0 || d.2 > 0).unwrap_or(false), "partial-data")];
    for (h, name) in had {
        if h {
            rep.count(&format!("had.{}", name));
        }
    }
    if expected_rejection && res.is_ok() {
        ctx.violation(rep, "C11", "bad-edit-accepted", index, format!("untokenizable edit {:?} was accepted", edit_text), case());
        return;
    }
    // an edit the interpreter refuses, for whatever reason (it may have reasons this harness does not know, a size
    // limit for instance), must change nothing: neither the program nor the runtime state
    let rejected = !res.is_ok();
    if rejected && !expected_rejection {
        rep.count("edits_refused_unexpectedly");
    }
    if rejected {
        {
            let listing_now = replay(&{ let mut h = history.clone(); h.push(Op::Line(edit_text.clone())); h }).run_line("LIST", 5).printed();
            let listing_before = replay(&history).run_line("LIST", 5).printed();
            if listing_now != listing_before {
                ctx.violation(rep, "C11", "refused-edit-changes-program", index,
                    format!("the edit {:?} was refused ({}), yet the program listing changed", edit_text, res.to_json()), case());
                return;
            }
        }
        if refs_view(&s1) != refs_view(&s0) || data_view(&s1) != data_view(&s0) || s1.map_lines != s0.map_lines {
            ctx.violation(rep, "C11", "rejected-edit-invalidates", index,
                format!("a rejected edit changed runtime state:\n  before: {} {}\n  after:  {} {}", refs_view(&s0), data_view(&s0), refs_view(&s1), data_view(&s1)), case());
            return;
        }
        // CONT continues exactly like the twin that never saw the edit
        let mut twin = replay(&history);
        let mut with_edit = replay(&history);
        with_edit.call(Op::Line(edit_text.clone()));
        let ra = exec::run_real(&mut with_edit, "CONT", &g.replies[ridx.min(g.replies.len())..], 400);
        let rb = exec::run_real(&mut twin, "CONT", &g.replies[ridx.min(g.replies.len())..], 400);
        if ra.printed() != rb.printed() || ra.final_res().outcome() != rb.final_res().outcome() {
            ctx.violation(rep, "C11", "rejected-edit-changes-continuation", index,
                format!("CONT after a rejected edit prints {:?} / {:?}; without the edit {:?} / {:?}", ra.printed(), ra.final_res().outcome(), rb.printed(), rb.final_res().outcome()), case());
            return;
        }
        rep.count("rejected_edits_checked");
        flush_trips(ctx, rep, index, &with_edit, case);
        return;
    }

    // ---- snapshot oracle
    let clean = s1.breakpoint.is_none() && s1.stack.is_empty() && s1.loops.is_empty() && s1.functions.is_empty()
        && s1.data_cursor.is_none() && s1.location.line.is_none();
    if !clean {
        ctx.violation(rep, "C11", "references-survive-edit", index,
            format!("after the edit the interpreter still holds: {} location={:?}", refs_view(&s1), s1.location), case());
        return;
    }
    if data_view(&s1) != data_view(&s0) {
        ctx.violation(rep, "C11", "edit-changes-variables", index,
            format!("the edit changed variables/arrays:\n  before: {}\n  after:  {}", data_view(&s0), data_view(&s1)), case());
        return;
    }
    // ---- probes, each on its own replay
    let mut full = history.clone();
    full.push(Op::Line(edit_text.clone()));
    let mut probes_run = 0u64;
    let mut probe = |line: &str, expect: &dyn Fn(&Res, &str) -> Option<String>, rep: &mut Report| -> bool {
        let mut s = replay(&full);
        let out = s.run_line(line, 250);
        probes_run += 1;
        flush_trips(ctx, rep, index, &s, || json!({"probe": line, "case": case()}));
        if let Some(why) = expect(&out.res, &out.printed()) {
            ctx.violation(rep, "C11", &format!("probe:{}", line.split(' ').next().unwrap_or("")), index,
                format!("after the edit, `{}` gave {} {:?}: {}", line, out.res.to_json(), out.printed(), why), case());
            return false;
        }
        true
    };
    let expect_err = |kind: &'static str| move |r: &Res, _p: &str| -> Option<String> {
        if r.err_kind() == Some(kind) { None } else { Some(format!("expected {}", kind)) }
    };
    if !probe("CONT", &expect_err("CAN'T CONTINUE"), rep) {
        return;
    }
    if !probe("RETURN", &expect_err("RETURN WITHOUT GOSUB"), rep) {
        return;
    }
    let mut loop_vars: Vec<String> = s0.loops.iter().map(|l| l.0.clone()).collect();
    loop_vars.push("I".into());
    loop_vars.dedup();
    for v in loop_vars.iter().take(4) {
        if !probe(&format!("NEXT {}", v), &expect_err("NEXT WITHOUT FOR"), rep) {
            return;
        }
    }
    for f in s0.functions.iter().take(3) {
        let want = if f.0.ends_with('$') { "\n" } else { "0\n" };
        let name = f.0.clone();
        if !probe(&format!("PRINT {}(1)", name), &move |r: &Res, p: &str| {
            if r.is_ok() && p == want { None } else { Some(format!("the function must be gone ({}(1) is then a fresh array cell printing {:?})", name, want)) }
        }, rep) {
            return;
        }
    }
    // READ restarts from the first DATA item of the edited program: compare with a fresh interpreter holding it
    {
        let mut fresh = Session::new();
        fresh.keep_log = false;
        for op in &full {
            if let Op::Line(l) = op {
                if abasic_core::verif_hooks::parse_line_number(l).is_some() {
                    fresh.call(Op::Line(l.clone()));
                }
            }
        }
        let want = fresh.run_line("READ A$ : PRINT A$", 20);
        let (wk, wp) = (want.res.outcome(), want.printed());
        if !probe("READ A$ : PRINT A$", &move |r: &Res, p: &str| {
            if r.outcome() == wk && p == wp { None } else { Some(format!("a fresh interpreter holding the edited program gives {:?} {:?}", wk, wp)) }
        }, rep) {
            return;
        }
    }
    if let Some(d) = deleted {
        if !probe(&format!("GOTO {}", d), &expect_err("UNDEF'D STATEMENT"), rep) {
            return;
        }
    }
    // a replaced line must be executed in its new form whichever way it is entered next
    if let Some(marker) = match edit_kind { "replace-breakpoint-line" => Some("bp\n"), "replace-other-line" => Some("replaced\n"), "add-new-line" => Some("new\n"), _ => None } {
        let n = abasic_core::verif_hooks::parse_line_number(&edit_text).map(|x| x.0).unwrap_or(0);
        // (a jump target is a numeric literal, i.e. an f64: line numbers above 2^53 cannot be named exactly by GOTO)
        let entries: &[&str] = if n <= (1u64 << 53) { &["GOTO", "GOSUB"] } else { &[] };
        for entry in entries.iter().copied() {
            if !probe(&format!("{} {}", entry, n), &move |r: &Res, p: &str| {
                if matches!(r, Res::Panic(_)) { Some("panicked".into()) }
                else if !p.starts_with(marker) { Some(format!("the line was replaced by one that prints {:?} first", marker)) } else { None }
            }, rep) {
                return;
            }
        }
        rep.count("replaced_line_entered");
    }
    if let Some(l) = s1.map_lines.first().copied() {
        let target = *rng.pick(&s1.map_lines);
        for t in [l, target] {
            // after the edit the interpreter must be indistinguishable from a fresh one that holds the edited program,
            // the same variables and arrays and the same generator state: entering at line t behaves the same on both
            let twin = fresh_twin(&full, &s1);
            let want = twin.map(|mut tw| {
                let o = tw.run_line(&format!("GOTO {}", t), 250);
                (o.res.outcome(), o.printed())
            });
            if want.is_some() {
                rep.count("goto_compared_with_fresh_twin");
            }
            if !probe(&format!("GOTO {}", t), &move |r: &Res, p: &str| {
                if matches!(r, Res::Panic(_)) {
                    return Some("panicked".into());
                }
                match &want {
                    Some((wk, wp)) if *wk != r.outcome() || wp != p => Some(format!("a fresh interpreter holding the edited program and the same variables gives {:?} {:?}", wk, wp)),
                    _ => None,
                }
            }, rep) {
                return;
            }
        }
    }
    rep.add("probes", probes_run);
    let n_refs = had.iter().filter(|h| h.0).count();
    if n_refs >= 1 && probes_run >= 3 {
        rep.nontrivial(hash_str(&format!("{}|{}|{}", g.prog.text(), edit_text, turns)));
    }
    if rep.want_sample() && index % 701 == 0 {
        rep.sample(case());
    }
}

fn finalize(_tier: Tier, rep: &mut Report) -> Finalize {
    Finalize {
        rule: "A case is a generated program driven to a suspension point (end, error, STOP, host break at a random turn, break while awaiting input), one edit (add, replace or delete — targeted at the line holding the breakpoint, the open FOR, the GOSUB return point, the DEF or the current DATA when there is one — or an untokenizable edit), the snapshot oracle, and the probes CONT / RETURN / NEXT v / PRINT FNx(1) / READ / GOTO n / GOSUB n (a replaced or added line must run in its new form; GOTO into the program behaves exactly as on a fresh interpreter rebuilt from the edited lines, the same variables, arrays and generator state), each on its own replay of the history. \
               Non-trivial: at the edit the interpreter held at least one of (breakpoint, GOSUB frame, open loop, defined function, partially read DATA), the edit succeeded and >= 3 probes ran. Distinct by hash of program + edit + suspension turn.".into(),
        floors: vec![
            ("probes".into(), 30_000),
            ("replaced_line_entered".into(), 3_000),
            ("edit.deleted_the_only_line".into(), 300),
            ("goto_compared_with_fresh_twin".into(), 20_000),
            ("rejected_edits_checked".into(), 500),
            ("had.breakpoint".into(), 2_000),
            ("had.gosub-frame".into(), 300),
            ("had.open-loop".into(), 500),
            ("had.function".into(), 1_000),
            ("had.partial-data".into(), 500),
            ("distinct_nontrivial".into(), 2_000),
        ],
        assumptions: vec!["functions are never given the name of an existing array by the generator (so FNx(1) after the edit is a fresh array cell)".into()],
        exhaustive: false,
        extras: json!({}),
    }
}
