//! C08 — INPUT suspends and resumes without disturbing the rest of the program.
//!
//! Oracle: M-prog extended with INPUT and an independent reply model. Turn by turn (tracing on):
//! the real interpreter reports AwaitingInput exactly when the model does, with identical output so far
//! and identical variables/arrays at that point; the resuming call re-executes only the INPUT (one trace
//! record), REENTER / EXTRA IGNORED appear exactly when the model says, and the continuation and the final
//! variables equal the model's.

use crate::cmp::{compare_turns, CmpOpts};
use crate::drive::{flush_trips, Op, Session};
use crate::exec;
use crate::gen::prog::{self, GenOpts, Generated};
use crate::model::ast::*;
use crate::model::prog::{Ev, Status};
use crate::props::c03;
use crate::report::Report;
use crate::runner::{Check, Ctx, Finalize, Tier, Workload};
use crate::util::hash_str;
use serde_json::json;

pub fn check() -> Check {
    Check { id: "C08", plan, run_case, finalize }
}

fn plan(tier: Tier) -> Vec<Workload> {
    vec![
        Workload::new("programs", tier.pick(150_000, 3_000_000)),
        Workload::new("placements", tier.pick(20_000, 300_000)),
        // the same interpreter runs the program a second time after a first run whose INPUT did not complete
        Workload::new("rerun", tier.pick(30_000, 500_000)),
    ]
}

/// hand-shaped placements of INPUT with random replies
fn placement_program(rng: &mut crate::util::Rng) -> Generated {
    let mut g = Generated::default();
    let target_num = *rng.pick(&["X", "A", "M(2)", "P(1,2)", "E(I)"]);
    let target_str = *rng.pick(&["A$", "R$(3)"]);
    let numeric = rng.chance(2, 3);
    let t = if numeric { target_num } else { target_str };
    let lv = |t: &str| -> LValue {
        if let Some(p) = t.find('(') {
            let name = &t[..p];
            let idx: Vec<Expr> = t[p + 1..t.len() - 1]
                .split(',')
                .map(|s| if s.chars().all(|c| c.is_ascii_digit()) { Expr::Num(s.to_string()) } else { var(s) })
                .collect();
            LValue { name: name.to_string(), index: Some(idx) }
        } else {
            LValue::scalar(t)
        }
    };
    let input = Stmt::Input(lv(t));
    let pr = |s: &str| Stmt::Print { items: vec![PrintItem::Expr(strlit(s))], question_mark: false };
    let show = Stmt::Print {
        items: vec![PrintItem::Expr(strlit("got ")), PrintItem::Expr(match &lv(t).index {
            None => var(t),
            Some(idx) => Expr::Cell(lv(t).name.clone(), idx.clone()),
        })],
        question_mark: false,
    };
    let mut lines: Vec<Vec<Stmt>> = vec![vec![Stmt::Dim("M".into(), vec![num(5)]), Stmt::Dim("P".into(), vec![num(3), num(4)]), Stmt::Dim("R$".into(), vec![num(6)])]];
    // Dim with several arrays is not supported by the language: one per statement
    lines[0] = vec![Stmt::Dim("M".into(), vec![num(5)])];
    lines.push(vec![Stmt::Dim("P".into(), vec![num(3), num(4)])]);
    lines.push(vec![Stmt::Dim("R$".into(), vec![num(6)])]);
    lines.push(vec![Stmt::Let { target: LValue::scalar("I"), expr: num(2), keyword: false }]);
    let shape = rng.below(9);
    g.features.insert(match shape {
        0 => "placement:first-on-line",
        1 => "placement:middle-of-line",
        2 => "placement:last-on-line",
        3 => "placement:in-THEN",
        4 => "placement:in-ELSE",
        5 => "placement:in-FOR",
        6 => "placement:in-subroutine",
        7 => "placement:two-on-a-line",
        _ => "placement:THEN-with-trailing-statements",
    });
    match shape {
        0 => lines.push(vec![input.clone(), pr("after"), show.clone()]),
        1 => lines.push(vec![pr("before"), input.clone(), pr("after"), show.clone()]),
        2 => {
            lines.push(vec![pr("before"), pr("again"), input.clone()]);
            lines.push(vec![show.clone()]);
        }
        3 => {
            lines.push(vec![pr("p"), Stmt::If { cond: num(1), then: Branch::Stmt(Box::new(input.clone())), els: None }, show.clone()]);
        }
        4 => {
            lines.push(vec![Stmt::If { cond: num(0), then: Branch::Stmt(Box::new(pr("no"))), els: Some(Branch::Stmt(Box::new(input.clone()))) }, show.clone()]);
        }
        5 => {
            lines.push(vec![Stmt::For { var: "K".into(), from: num(1), to: num(2), step: None }, pr("loop"), input.clone(), show.clone(), Stmt::Next("K".into())]);
        }
        6 => {
            lines.push(vec![pr("main"), Stmt::Gosub(500), pr("back"), show.clone()]);
            lines.push(vec![Stmt::End]);
            lines.push(vec![pr("sub"), input.clone(), Stmt::Return]);
        }
        7 => {
            let second = Stmt::Input(LValue::scalar(if numeric { "Y" } else { "B$" }));
            lines.push(vec![input.clone(), second, show.clone()]);
        }
        _ => {
            lines.push(vec![Stmt::If { cond: var("I"), then: Branch::Stmt(Box::new(input.clone())), els: None }, pr("t1"), show.clone()]);
        }
    }
    lines.push(vec![pr("end")]);
    let mut prog = Program::default();
    for (i, stmts) in lines.into_iter().enumerate() {
        let number = if shape == 6 && i == 6 { 500 } else { 10 * (i as u64 + 1) };
        prog.lines.push(Line { number, stmts });
    }
    prog.lines.sort_by_key(|l| l.number);
    g.prog = prog;
    // replies: 0-3 REENTER provocations (numeric targets), then a good one of some spelling
    let n_bad = if numeric { rng.below(4) } else { 0 };
    for _ in 0..n_bad {
        g.replies.push(rng.s(&["abc", "", "  ", "x1", "\"12\"", "1 2", "--1", "one, 2"]).to_string());
    }
    let good = if numeric {
        rng.s(&["7", "-3", "2.5", " 4 ", "0", "+8", ".5", "3,4", "3, 4, 5", "9: tail", "\t6", "12,", "5 , x"]).to_string()
    } else {
        rng.s(&["hello", "", " padded ", "\"quoted, text\"", "a,b", "7", "x:y", "\"  keep  \"", "2.50", "\"unterminated", "é ü", "a , b , c"]).to_string()
    };
    g.replies.push(good);
    if shape == 5 || shape == 7 {
        g.replies.push(if numeric { "1".into() } else { "again".into() });
    }
    g
}

fn run_rerun(ctx: &Ctx, index: u64, rep: &mut Report) {
    let mut rng = ctx.rng(index);
    let opts = GenOpts { inputs: true, input_boost: true, stops: false, rnd: false, kf_permille: 0, failure_permille: 150, ..GenOpts::default() };
    let g = prog::generate(&mut rng, &opts);
    let cap = 2000;
    let mut sess = Session::new();
    sess.keep_log = false;
    sess.it.enable_tracing = true;
    if exec::load_program(&mut sess, &g.prog).is_err() {
        return;
    }
    // first run: ends, fails, or is abandoned at an input request (before or after a reply was handed over)
    sess.call(Op::Line("RUN".into()));
    let stop_at_request = rng.below(4);
    let mut requests = 0;
    let mut ridx = 0;
    let mut n = 0;
    let mut first_life = "ran-to-the-end";
    while !sess.poisoned && n < cap {
        n += 1;
        if !sess.log.last().map(|r| r.res.is_ok()).unwrap_or(true) {
            first_life = "failed";
            break;
        }
        match sess.state() {
            abasic_core::InterpreterState::Running => {
                sess.call(Op::Cont);
            }
            abasic_core::InterpreterState::AwaitingInput => {
                requests += 1;
                if requests > stop_at_request {
                    if rng.coin() {
                        sess.call(Op::Input(exec::reply_at(&g.replies, ridx)));
                    }
                    sess.call(Op::Break);
                    first_life = "abandoned-at-input";
                    break;
                }
                sess.call(Op::Input(exec::reply_at(&g.replies, ridx)));
                ridx += 1;
            }
            _ => break,
        }
    }
    if sess.poisoned {
        flush_trips(ctx, rep, index, &sess, || exec::program_json(&g.prog));
        return;
    }
    sess.settle();
    let model = exec::run_model(&g.prog, 0, &g.replies, cap);
    let real = exec::run_real(&mut sess, "RUN", &g.replies, if model.capped { cap } else { model.turns.len() + 32 });
    flush_trips(ctx, rep, index, &sess, || exec::program_json(&g.prog));
    let o = CmpOpts { tracing: true, warnings: false };
    if compare_turns(&real, &model, o).is_err() && crate::cmp::compare_flat(&real, &model, o).is_err() {
        let why = compare_turns(&real, &model, o).err().map(|e| e.1).unwrap_or_default();
        ctx.violation(rep, "C08", "second-run-input-sequence", index,
            format!("second RUN on the same interpreter (first run {}): {}", first_life, why),
            json!({"program": exec::program_json(&g.prog), "replies": g.replies, "first_run": first_life, "real_printed": real.printed(), "model_printed": model.printed()}));
        return;
    }
    rep.count("rerun.cases");
    rep.count(&format!("rerun.first_run_{}", first_life));
    let reqs = model.turns.iter().filter(|t| t.status == Status::AwaitingInput).count() as u64;
    rep.add("input_requests", reqs);
    if reqs > 0 {
        rep.nontrivial(hash_str(&format!("rerun{}{}", g.prog.text(), first_life)));
    }
}

fn run_case(ctx: &Ctx, index: u64, rep: &mut Report) {
    if ctx.workload == "rerun" {
        return run_rerun(ctx, index, rep);
    }
    let mut rng = ctx.rng(index);
    let g = match ctx.workload.as_str() {
        "programs" => {
            let opts = GenOpts { inputs: true, input_boost: true, stops: false, failure_permille: 60, ..GenOpts::default() };
            prog::generate(&mut rng, &opts)
        }
        "placements" => placement_program(&mut rng),
        other => panic!("unknown workload {}", other),
    };
    let seed = rng.below(1 << 33);
    let cap = 3000;
    let model = exec::run_model(&g.prog, seed, &g.replies, cap);
    let mut sess = Session::new();
    sess.keep_log = false;
    sess.it.enable_tracing = true;
    // warnings on in half of the cases: INPUT into an undeclared array warns when the reply is stored, once
    let warn = rng.coin();
    sess.it.enable_warnings = warn;
    sess.call(Op::Randomize(seed));
    if let Err(m) = exec::load_program(&mut sess, &g.prog) {
        ctx.violation(rep, "C08", "load-rejected", index, m, exec::program_json(&g.prog));
        return;
    }
    let real = exec::run_real(&mut sess, "RUN", &g.replies, if model.capped { cap } else { model.turns.len() + 32 });
    flush_trips(ctx, rep, index, &sess, || exec::program_json(&g.prog));
    for f in &g.features {
        if f.starts_with("placement:") || f.starts_with("INPUT") {
            rep.count(&format!("feature.{}", f));
        }
    }
    let cmp = match compare_turns(&real, &model, CmpOpts { tracing: true, warnings: warn }) {
        Err(_) if crate::cmp::compare_flat(&real, &model, CmpOpts { tracing: true, warnings: warn }).is_ok()
            && real.turns.iter().filter(|t| t.was_reply).all(|t| t.outs.iter().filter(|o| matches!(o, crate::drive::Out::Trace(_))).count() <= 1) =>
        {
            // only the placement of turn boundaries differs from the model; requests, records between replies,
            // states, variables and the single statement re-executed by each resuming call all agree
            rep.count("tolerated.turn_boundaries_differ_from_model");
            Ok(real.turns.len().min(model.turns.len()))
        }
        other => other,
    };
    match cmp {
        Ok(n) => {
            let requests = model.turns.iter().filter(|t| t.status == Status::AwaitingInput).count() as u64;
            let reenters = model.turns.iter().flat_map(|t| t.events.iter()).filter(|e| matches!(e, Ev::Reenter)).count() as u64;
            let extras = model.turns.iter().flat_map(|t| t.events.iter()).filter(|e| matches!(e, Ev::ExtraIgnored)).count() as u64;
            let consumed = model.turns.iter().filter(|t| t.was_reply).count() as u64;
            rep.add("input_requests", requests);
            rep.add("reenter", reenters);
            rep.add("extra_ignored", extras);
            rep.add("reply_turns", consumed);
            rep.add("turns_compared", n as u64);
            let digests = real.turns.iter().filter(|t| t.digest.is_some()).count() as u64;
            rep.add("state_comparisons_at_quiescent_points", digests);
            let placed = g.features.iter().any(|f| f.starts_with("placement:") && *f != "placement:first-on-line")
                || g.features.contains("INPUT-in-branch");
            if consumed > reenters && (placed || ctx.workload == "programs") && requests > 0 {
                rep.nontrivial(hash_str(&format!("{}|{:?}", g.prog.text(), g.replies)));
            }
            if rep.want_sample() && index % 499 == 0 && requests > 0 {
                rep.sample(json!({"program": exec::program_json(&g.prog), "replies": g.replies, "printed": real.printed(),
                    "input_requests": requests, "reenter": reenters, "extra_ignored": extras}));
            }
        }
        Err((i, why)) => {
            // known finding D5: THEN INPUT v ELSE ...
            if g.has_kf_shape && c03::error_is_at_else(&real.final_res())
                && real.final_res().outcome().1.map(|l| c03::line_has_kf_shape(&g.prog, l)).unwrap_or(false)
                && model.printed().starts_with(&real.printed())
            {
                ctx.known_or_violation(rep, "C08-KF1", "C08", "then-transfer-else", index,
                    "SYNTAX ERROR at the ELSE that follows `THEN INPUT v` (or THEN GOSUB/FOR) once the statement resumes".into(),
                    json!({"program": exec::program_json(&g.prog), "replies": g.replies}));
                return;
            }
            let flat = crate::cmp::compare_flat(&real, &model, CmpOpts { tracing: true, warnings: warn }).err().unwrap_or_default();
            ctx.violation(rep, "C08", "input-sequence", index,
                format!("INPUT behaviour differs from the reference: {} (flattened comparison: {})", why, flat),
                json!({"program": exec::program_json(&g.prog), "replies": g.replies, "turn": i + 1,
                       "real_printed": real.printed(), "model_printed": model.printed()}));
        }
    }
}

fn finalize(_tier: Tier, rep: &mut Report) -> Finalize {
    Finalize {
        rule: "programs: G-prog with frequent INPUT (scalar and array targets, in THEN without ELSE, in ELSE, in loops and subroutines) and a reply script (plain numbers, text, empty, blanks, quoted text, comma lists, colon tails, REENTER provocations); \
               placements: nine hand-shaped placements x reply spellings x 0-3 REENTER repetitions. Each case is compared turn by turn with M-prog (tracing on): state, every output record incl. the single trace record of the resuming call, REENTER / EXTRA IGNORED, and variables+arrays at every input request and at the end. \
               Non-trivial: at least one reply was consumed by an INPUT that is not the first statement of its line or sits in THEN/ELSE/loop/subroutine/array-target form (all generated programs qualify when they request input). Distinct by hash of program + replies.".into(),
        floors: vec![
            ("input_requests".into(), 20_000),
            ("reenter".into(), 1_000),
            ("extra_ignored".into(), 500),
            ("state_comparisons_at_quiescent_points".into(), 20_000),
            ("distinct_nontrivial".into(), 3_000),
            ("rerun.first_run_abandoned-at-input".into(), 3_000),
        ],
        assumptions: vec![
            "reply texts stay inside the unambiguous zone of the reply model (no exponent forms, inf/nan, text after a closing quote, bare trailing colon)".into(),
        ],
        exhaustive: false,
        extras: json!({}),
    }
}
