//! C07 — break and CONT are transparent to the interrupted program.
//!
//! Metamorphic oracle on the real interpreter: T(uninterrupted run) == T(run with breaks + inspections +
//! CONT), where T is the ordered list of program outputs, consumed replies and the final outcome (plus final
//! variables/arrays). Sharper second oracle: after every inspection statement the runtime state relevant to
//! the continuation (breakpoint, stack, loops, functions, data cursor, variables, arrays, rng, pending reply)
//! equals the state right after the break. Second form: STOP + typed assignment + CONT == assignment in place.

use crate::drive::{flush_trips, Op, Out, Res, Session};
use crate::exec;
use crate::gen::prog::{self, GenOpts, Generated};
use crate::model::ast::*;
use crate::props::c03;
use crate::report::Report;
use crate::runner::{Check, Ctx, Finalize, Tier, Workload};
use crate::util::{hash_str, Rng};
use abasic_core::verif_hooks::Snapshot;
use abasic_core::InterpreterState;
use serde_json::{json, Value};

pub fn check() -> Check {
    Check { id: "C07", plan, run_case, finalize }
}

const CALL_CAP: usize = 1500;

fn plan(tier: Tier) -> Vec<Workload> {
    vec![
        Workload::new("random", tier.pick(40_000, 1_000_000)),
        Workload::new("exhaustive", tier.pick(4_000, 60_000)),
        Workload::new("stop_assign", tier.pick(30_000, 500_000)),
    ]
}

#[derive(Clone, Debug, PartialEq)]
enum Item {
    Out(Out),
    Reply(String),
}

#[derive(Clone, Debug, Default)]
struct Transcript {
    items: Vec<Item>,
    outcome: (String, Option<u64>),
    digest: Option<Vec<String>>,
    capped: bool,
    driving_calls: usize,
}

/// state that must survive a round trip through immediate mode
fn continuation_state(s: &Snapshot) -> String {
    format!(
        "bp={:?} stack={:?} loops={:?} fns={:?} data={:?} vars={:?} arrays={:?} rng={} pending={:?}",
        s.breakpoint, s.stack, s.loops, s.functions, s.data_cursor, s.variables, s.arrays, s.rng_state, s.pending_input
    )
}

struct Stats {
    breaks_running: u64,
    breaks_awaiting: u64,
    breaks_pending_reply: u64,
    conts: u64,
    inspections: u64,
    inspections_failed: u64,
    fn_fail_inspections: u64,
    outputs_after_first_cont: u64,
    max_stack_at_break: usize,
    max_loops_at_break: usize,
    data_cursor_at_break: u64,
    midline_breaks: u64,
}

fn inspection_line(rng: &mut Rng, snap: &Snapshot, stats: &mut Stats) -> String {
    let numeric_vars: Vec<&String> = snap.variables.iter().filter(|v| v.1 == 'N').map(|v| &v.0).collect();
    let string_vars: Vec<&String> = snap.variables.iter().filter(|v| v.1 == 'S').map(|v| &v.0).collect();
    let has_fnz = snap.functions.iter().any(|f| f.0 == "FNZ");
    // (a name that is not a function yet would be read as an array, which creates it)
    let has_fny = has_fnz && snap.functions.iter().any(|f| f.0 == "FNY");
    match rng.below(15) {
        0 => rng.s(&["PRINT 1/0", "PRINT \"AVG=\";1/0", "PRINT 7,1/0", "PRINT \"a\";\"b\";)", "PRINT 1;2;\"x\"+1", "? \"lead\",FNQ9(", "PRINT 3; : PRINT 4;1/0"]).to_string(),
        13 if has_fny => { stats.fn_fail_inspections += 1; "PRINT FNY(0)".into() }
        1 => "PRINT \"A\"+1".into(),
        2 => "LIST".into(),
        3 => rng.s(&["PRINT )", "X +", "PRINT \"unterminated", "GOSUB", "IF 1", "é", "NEXT"]).to_string(),
        4 => rng.s(&["", " ", "\t"]).to_string(),
        5 if !numeric_vars.is_empty() => format!("PRINT {} * 2 + 1", rng.pick(&numeric_vars)),
        6 if !string_vars.is_empty() => format!("PRINT {}; \"<\"", rng.pick(&string_vars)),
        7 if !snap.arrays.is_empty() => {
            // only arrays that exist: reading a missing array would create it (a write)
            let a = rng.pick(&snap.arrays);
            let idx: Vec<String> = a.dimensions.iter().map(|d| rng.below(*d as u64).to_string()).collect();
            format!("PRINT {}({})", a.name, idx.join(","))
        }
        8 if has_fnz => "PRINT FNZ(2)".into(),
        9 | 10 if has_fnz => {
            stats.fn_fail_inspections += 1;
            // the body divides by its argument: fails inside the function
            "PRINT FNZ(0)".into()
        }
        11 if has_fny => rng.s(&["PRINT FNZ(\"text\")", "PRINT FNY(0)", "PRINT FNY(0)", "PRINT FNY(FNZ(0))", "PRINT FNY(2) + FNY(0)", "PRINT FNY(5)"]).to_string(),
        12 => "PRINT RND(0)".into(),
        _ => "PRINT 42".into(),
    }
}

/// Drive a loaded program. `want_break(boundary index)` decides where to break in.
fn drive(
    sess: &mut Session,
    replies: &[String],
    rng: &mut Rng,
    want_break: &mut dyn FnMut(u64) -> bool,
    max_inspections: u64,
    stats: &mut Stats,
    problems: &mut Vec<String>,
) -> Transcript {
    let mut t = Transcript::default();
    let mut boundary = 0u64;
    let mut replies_given = 0usize;
    let mut first_cont_done = false;
    let mut op = Op::Line("RUN".into());
    loop {
        let rec = sess.call(op.clone()).clone();
        t.driving_calls += 1;
        for o in &rec.outs {
            match o {
                Out::Break(_) => {} // STOP notices are not generated in this form
                other => {
                    t.items.push(Item::Out(other.clone()));
                    if first_cont_done {
                        stats.outputs_after_first_cont += 1;
                    }
                }
            }
        }
        if sess.poisoned || !rec.res.is_ok() {
            t.outcome = rec.res.outcome();
            break;
        }
        if t.driving_calls >= CALL_CAP {
            t.capped = true;
            t.outcome = ("CAPPED".into(), None);
            break;
        }
        // boundary: possibly break in (also right after a reply was handed over)
        let mut state = sess.state();
        let mut broke_while_awaiting = false;
        loop {
            if !(state == InterpreterState::Running || state == InterpreterState::AwaitingInput) {
                break;
            }
            if t.driving_calls >= CALL_CAP {
                break;
            }
            // an input request that was broken into and re-issued is answered next (one break per request)
            if state == InterpreterState::AwaitingInput && broke_while_awaiting {
                break;
            }
            let b = boundary;
            boundary += 1;
            if !want_break(b) {
                break;
            }
            if state == InterpreterState::AwaitingInput {
                broke_while_awaiting = true;
            }
            let pending = sess.last_snapshot.as_ref().map(|s| s.pending_input.is_some()).unwrap_or(false);
            sess.call(Op::Break);
            match state {
                InterpreterState::Running if pending => stats.breaks_pending_reply += 1,
                InterpreterState::Running => stats.breaks_running += 1,
                _ => stats.breaks_awaiting += 1,
            }
            if sess.state() != InterpreterState::Idle {
                problems.push(format!("break left state {:?}", sess.state()));
                t.outcome = ("BROKEN".into(), None);
                return t;
            }
            let after_break = sess.snapshot();
            stats.max_stack_at_break = stats.max_stack_at_break.max(after_break.stack.len());
            stats.max_loops_at_break = stats.max_loops_at_break.max(after_break.loops.len());
            if after_break.data_cursor.is_some() {
                stats.data_cursor_at_break += 1;
            }
            if after_break.breakpoint.as_ref().map(|b| b.token_index > 0).unwrap_or(false) {
                stats.midline_breaks += 1;
            }
            let reference = continuation_state(&after_break);
            let n_insp = rng.below(max_inspections + 1);
            for _ in 0..n_insp {
                let line = inspection_line(rng, &after_break, stats);
                let r = sess.run_line(&line, 200);
                stats.inspections += 1;
                if !r.res.is_ok() {
                    stats.inspections_failed += 1;
                }
                if sess.poisoned {
                    t.outcome = r.res.outcome();
                    return t;
                }
                if sess.state() != InterpreterState::Idle {
                    sess.settle();
                }
                let now = continuation_state(&sess.snapshot());
                if now != reference {
                    problems.push(format!(
                        "inspection {:?} at the breakpoint changed the runtime state:\n  after break: {}\n  after inspection: {}",
                        line, reference, now
                    ));
                }
            }
            // CONT is a program-driving call
            let rec = sess.call(Op::Line("CONT".into())).clone();
            stats.conts += 1;
            first_cont_done = true;
            t.driving_calls += 1;
            for o in &rec.outs {
                if !matches!(o, Out::Break(_)) {
                    t.items.push(Item::Out(o.clone()));
                    stats.outputs_after_first_cont += 1;
                }
            }
            if sess.poisoned || !rec.res.is_ok() {
                t.outcome = rec.res.outcome();
                t.digest = exec::digest_if_quiescent(sess);
                return t;
            }
            state = sess.state();
        }
        match sess.state() {
            InterpreterState::Running => op = Op::Cont,
            InterpreterState::AwaitingInput => {
                let text = exec::reply_at(replies, replies_given);
                replies_given += 1;
                t.items.push(Item::Reply(text.clone()));
                sess.call(Op::Input(text));
                // the boundary between handing over the reply and the next turn
                let b = boundary;
                boundary += 1;
                if want_break(b) {
                    sess.call(Op::Break);
                    stats.breaks_pending_reply += 1;
                    let after_break = sess.snapshot();
                    let reference = continuation_state(&after_break);
                    let n_insp = rng.below(max_inspections + 1);
                    for _ in 0..n_insp {
                        let line = inspection_line(rng, &after_break, stats);
                        let r = sess.run_line(&line, 200);
                        stats.inspections += 1;
                        if !r.res.is_ok() {
                            stats.inspections_failed += 1;
                        }
                        if sess.poisoned {
                            t.outcome = r.res.outcome();
                            return t;
                        }
                        let now = continuation_state(&sess.snapshot());
                        if now != reference {
                            problems.push(format!("inspection {:?} changed the runtime state (reply pending):\n  after break: {}\n  after inspection: {}", line, reference, now));
                        }
                    }
                    op = Op::Line("CONT".into());
                    stats.conts += 1;
                    first_cont_done = true;
                } else {
                    op = Op::Cont;
                }
            }
            _ => {
                t.outcome = ("OK".into(), None);
                break;
            }
        }
    }
    t.digest = exec::digest_if_quiescent(sess);
    t
}

fn new_stats() -> Stats {
    Stats {
        breaks_running: 0, breaks_awaiting: 0, breaks_pending_reply: 0, conts: 0, inspections: 0, inspections_failed: 0,
        fn_fail_inspections: 0, outputs_after_first_cont: 0, max_stack_at_break: 0, max_loops_at_break: 0,
        data_cursor_at_break: 0, midline_breaks: 0,
    }
}

fn load(g: &Generated, seed: u64) -> Option<Session> {
    let mut sess = Session::new();
    sess.keep_log = false;
    // half of the cases run with warnings on (decided by the seed, so that both runs of a pair agree): warning
    // records are part of the transcript of the driving calls and must not depend on where the breaks fall
    sess.it.enable_warnings = seed & 1 == 1;
    sess.call(Op::Randomize(seed));
    exec::load_program(&mut sess, &g.prog).ok()?;
    Some(sess)
}

fn same(a: &Transcript, b: &Transcript) -> bool {
    if a.capped || b.capped {
        let n = a.items.len().min(b.items.len());
        return a.items[..n] == b.items[..n];
    }
    a.items == b.items && a.outcome == b.outcome && a.digest == b.digest
}

fn describe(t: &Transcript) -> Value {
    json!({"items": t.items.iter().take(60).map(|i| match i { Item::Out(o) => o.to_json(), Item::Reply(r) => json!({"reply": r}) }).collect::<Vec<_>>(),
           "outcome": format!("{:?}", t.outcome), "final_state": t.digest})
}

fn add_fnz(g: &mut Generated) {
    // a function whose body fails for argument 0: `DEF FNZ(X) = 10 / X`, defined on the lowest line
    let first = g.prog.lines.first().map(|l| l.number).unwrap_or(10);
    if first == 0 {
        return;
    }
    g.prog.lines.insert(0, Line {
        number: 0,
        stmts: vec![
            Stmt::Def { name: "FNZ".into(), params: vec!["X".into()], body: bin(Bin::Div, num(10), var("X")) },
            // a function that fails one level further down (inside the function it calls)
            Stmt::Def { name: "FNY".into(), params: vec!["V".into()], body: bin(Bin::Add, Expr::Call("FNZ".into(), vec![var("V")]), num(1)) },
        ],
    });
}

fn report_stats(rep: &mut Report, s: &Stats) {
    rep.add("breaks.while_running", s.breaks_running);
    rep.add("breaks.while_awaiting_input", s.breaks_awaiting);
    rep.add("breaks.with_reply_pending", s.breaks_pending_reply);
    rep.add("conts", s.conts);
    rep.add("inspections", s.inspections);
    rep.add("inspections_that_failed", s.inspections_failed);
    rep.add("inspections_failing_inside_user_function", s.fn_fail_inspections);
    rep.add("breaks.mid_line", s.midline_breaks);
    rep.add("breaks.with_data_cursor", s.data_cursor_at_break);
    rep.max("max_stack_depth_at_break", s.max_stack_at_break as u64);
    rep.max("max_loop_depth_at_break", s.max_loops_at_break as u64);
}

fn run_case(ctx: &Ctx, index: u64, rep: &mut Report) {
    let mut rng = ctx.rng(index);
    match ctx.workload.as_str() {
        "random" | "exhaustive" => {
            let exhaustive = ctx.workload == "exhaustive";
            let boost = rng.chance(1, 3);
            let opts = GenOpts {
                inputs: true, stops: false, kf_permille: 0, failure_permille: 60,
                max_main_blocks: if exhaustive { 2 } else { 8 },
                // (more INPUTs, also into array cells whose subscript has an effect: the subscript is evaluated once, when the reply is stored)
                input_boost: boost,
                ..GenOpts::default()
            };
            let mut g = prog::generate(&mut rng, &opts);
            add_fnz(&mut g);
            let seed = rng.below(1 << 33);
            let Some(mut base_sess) = load(&g, seed) else {
                ctx.violation(rep, "C07", "load-rejected", index, "program rejected".into(), exec::program_json(&g.prog));
                return;
            };
            let mut st0 = new_stats();
            let mut problems = vec![];
            let base = drive(&mut base_sess, &g.replies, &mut rng, &mut |_| false, 0, &mut st0, &mut problems);
            flush_trips(ctx, rep, index, &base_sess, || exec::program_json(&g.prog));
            // number of boundaries of the uninterrupted run
            let mut nb = 0u64;
            {
                let mut s2 = load(&g, seed).unwrap();
                let mut stc = new_stats();
                let mut p2 = vec![];
                let _ = drive(&mut s2, &g.replies, &mut rng.clone(), &mut |b| { nb = nb.max(b + 1); false }, 0, &mut stc, &mut p2);
            }
            let schedules: Vec<Box<dyn FnMut(u64) -> bool>> = if exhaustive {
                if nb == 0 || nb > 10 {
                    rep.count("exhaustive.skipped_too_many_boundaries");
                    return;
                }
                (1u64..(1 << nb)).map(|mask| Box::new(move |b: u64| b < 64 && (mask >> b) & 1 == 1) as Box<dyn FnMut(u64) -> bool>).collect()
            } else {
                let p = *rng.pick(&[2u64, 20, 100]);
                let mut r2 = Rng::new(rng.next_u64());
                vec![Box::new(move |_b: u64| r2.below(100) < p)]
            };
            if exhaustive {
                rep.add("exhaustive.schedules", schedules.len() as u64);
                rep.count("exhaustive.programs");
            }
            let max_insp = if exhaustive { 1 } else { 3 };
            let mut any_nontrivial = false;
            for mut sched in schedules {
                let Some(mut sess) = load(&g, seed) else { return };
                // a fifth of the interrupted runs happen on an interpreter with a past: an earlier run of the same program
                // that was broken into at its first input request (or after some turns) and abandoned without CONT
                if !exhaustive && rng.chance(1, 5) {
                    sess.call(Op::Line("RUN".into()));
                    let mut guard = 0;
                    while !sess.poisoned && sess.state() == InterpreterState::Running && guard < 150 {
                        if !sess.call(Op::Cont).res.is_ok() {
                            break;
                        }
                        guard += 1;
                    }
                    if !sess.poisoned && matches!(sess.state(), InterpreterState::Running | InterpreterState::AwaitingInput) {
                        sess.call(Op::Break);
                        rep.count("runs_after_an_abandoned_run");
                    }
                    if sess.poisoned {
                        flush_trips(ctx, rep, index, &sess, || exec::program_json(&g.prog));
                        return;
                    }
                    sess.settle();
                    // same generator state as the reference run
                    sess.call(Op::Randomize(seed));
                }
                let mut st = new_stats();
                let mut problems = vec![];
                let t = drive(&mut sess, &g.replies, &mut rng, &mut *sched, max_insp, &mut st, &mut problems);
                rep.count("interrupted_runs");
                flush_trips(ctx, rep, index, &sess, || exec::program_json(&g.prog));
                report_stats(rep, &st);
                if let Some(p) = problems.first() {
                    ctx.violation(rep, "C07", "inspection-changes-state", index, p.clone(),
                        json!({"program": exec::program_json(&g.prog), "replies": g.replies}));
                    return;
                }
                if !same(&base, &t) {
                    let sig = if matches!(sess.log.last().map(|r| &r.res), Some(Res::Panic(_))) { "panic" } else { "transcript-differs" };
                    ctx.violation(rep, "C07", sig, index,
                        format!("the run with {} breaks differs from the uninterrupted run", st.breaks_running + st.breaks_awaiting + st.breaks_pending_reply),
                        json!({"program": exec::program_json(&g.prog), "replies": g.replies, "uninterrupted": describe(&base), "interrupted": describe(&t)}));
                    return;
                }
                if (st.breaks_running + st.breaks_awaiting) >= 1 && st.conts >= 1 && st.outputs_after_first_cont >= 1 {
                    any_nontrivial = true;
                }
            }
            if any_nontrivial {
                rep.nontrivial(hash_str(&format!("{}|{}", g.prog.text(), index)));
            }
            if rep.want_sample() && index % 997 == 0 {
                rep.sample(json!({"program": exec::program_json(&g.prog), "replies": g.replies, "boundaries": nb, "uninterrupted": describe(&base)}));
            }
        }
        "stop_assign" => {
            // P' has `v = e` as a top-level statement; P has STOP there, the host types `v = e` and CONT
            let opts = GenOpts { inputs: true, stops: false, kf_permille: 0, failure_permille: 30, ..GenOpts::default() };
            let mut g2 = prog::generate(&mut rng, &opts);
            let seed = rng.below(1 << 33);
            // a quarter of the cases: the assignment (hence the STOP) is the last statement of the last line of the program
            let mut forced: Option<(usize, usize)> = None;
            if rng.chance(1, 4) {
                if let Some(last) = g2.prog.lines.last_mut() {
                    if matches!(last.stmts.last(), Some(Stmt::End)) {
                        let k = last.stmts.len() - 1;
                        last.stmts[k] = Stmt::Let { target: LValue::scalar("Z"), expr: num(5), keyword: false };
                        forced = Some((g2.prog.lines.len() - 1, k));
                        rep.count("stop_assign.stop_ends_the_program_text");
                    }
                }
            }
            // candidate positions: top-level numeric scalar LETs without side effects in the expression
            let mut cands = vec![];
            for (li, l) in g2.prog.lines.iter().enumerate() {
                for (si, s) in l.stmts.iter().enumerate() {
                    if let Stmt::Let { target, expr, .. } = s {
                        let mut pure = target.index.is_none();
                        expr.visit(&mut |e| {
                            if matches!(e, Expr::Rnd(_) | Expr::Call(..) | Expr::Cell(..) | Expr::Bin(Bin::Div, ..)) {
                                pure = false;
                            }
                        });
                        if pure {
                            cands.push((li, si));
                        }
                    }
                }
            }
            if cands.is_empty() {
                rep.count("stop_assign.no_candidate");
                return;
            }
            let (li, si) = forced.unwrap_or(cands[rng.usize(cands.len())]);
            let assign_text = g2.prog.lines[li].stmts[si].text();
            let mut g1 = g2.clone();
            g1.prog.lines[li].stmts[si] = Stmt::Stop;
            // run P'
            let Some(mut s2) = load(&g2, seed) else { return };
            // (an assignment typed at the prompt and the same assignment inside the program do not warn alike)
            s2.it.enable_warnings = false;
            let mut st = new_stats();
            let mut problems = vec![];
            let t2 = drive(&mut s2, &g2.replies, &mut rng, &mut |_| false, 0, &mut st, &mut problems);
            // run P: at every STOP type the assignment and CONT
            let Some(mut s1) = load(&g1, seed) else { return };
            s1.it.enable_warnings = false;
            let mut t1 = Transcript::default();
            let mut replies_given = 0;
            let mut op = Op::Line("RUN".into());
            let mut stops = 0u64;
            loop {
                let rec = s1.call(op.clone()).clone();
                t1.driving_calls += 1;
                let mut stopped = false;
                for o in &rec.outs {
                    match o {
                        Out::Break(_) => stopped = true,
                        other => t1.items.push(Item::Out(other.clone())),
                    }
                }
                if s1.poisoned || !rec.res.is_ok() {
                    t1.outcome = rec.res.outcome();
                    break;
                }
                if t1.driving_calls >= CALL_CAP {
                    t1.capped = true;
                    break;
                }
                if stopped {
                    stops += 1;
                    let r = s1.run_line(&assign_text, 20);
                    if !r.res.is_ok() {
                        // the assignment fails in both worlds the same way only inside the program; skip such cases
                        rep.count("stop_assign.assignment_failed");
                        return;
                    }
                    op = Op::Line("CONT".into());
                    continue;
                }
                match s1.state() {
                    InterpreterState::Running => op = Op::Cont,
                    InterpreterState::AwaitingInput => {
                        let text = exec::reply_at(&g1.replies, replies_given);
                        replies_given += 1;
                        t1.items.push(Item::Reply(text.clone()));
                        s1.call(Op::Input(text));
                        op = Op::Cont;
                    }
                    _ => {
                        t1.outcome = ("OK".into(), None);
                        break;
                    }
                }
            }
            t1.digest = exec::digest_if_quiescent(&s1);
            flush_trips(ctx, rep, index, &s1, || exec::program_json(&g1.prog));
            rep.add("stop_assign.stops_taken", stops);
            // an error raised by the assignment line itself carries that line in P' only; both are compared as is
            if !same(&t2, &t1) {
                // D5: STOP is never generated inside THEN..ELSE here, so no known finding applies
                let _ = c03::line_has_kf_shape;
                ctx.violation(rep, "C07", "stop-assign-differs", index,
                    format!("STOP + `{}` + CONT differs from the assignment written in place of the STOP", assign_text),
                    json!({"program_with_stop": exec::program_json(&g1.prog), "assignment": assign_text, "replies": g1.replies,
                           "in_place": describe(&t2), "stop_cont": describe(&t1)}));
                return;
            }
            if stops >= 1 {
                rep.count("stop_assign.cases_with_stop_taken");
                rep.nontrivial(hash_str(&format!("sa|{}|{}", g1.prog.text(), assign_text)));
            }
        }
        other => panic!("unknown workload {}", other),
    }
}

fn finalize(_tier: Tier, rep: &mut Report) -> Finalize {
    Finalize {
        rule: "random: G-prog programs (INPUT, GOSUB, FOR, READ, DEF FN, plus `0 DEF FNZ(X) = 10 / X`) run once uninterrupted and once with a break at every turn boundary chosen with probability 2%, 20% or 100% (boundaries include `awaiting input` and `reply handed over, not yet consumed`), 0-3 inspection statements at each breakpoint (PRINT of variables / existing array cells / RND(0), failing PRINTs, FNZ succeeding, failing inside its body, mistyped argument, LIST, broken and empty lines) and CONT. \
               exhaustive: for small programs with <= 10 boundaries, ALL non-empty subsets of boundaries. stop_assign: STOP + typed assignment + CONT versus the assignment in place. \
               Compared: ordered program outputs, consumed replies, final outcome, final variables/arrays; plus the continuation-relevant runtime state after every inspection. \
               Non-trivial: >= 1 break taken while running or awaiting input, >= 1 CONT and >= 1 program output after the first CONT (stop_assign: the STOP was reached). Distinct by program hash + case index.".into(),
        floors: vec![
            ("interrupted_runs".into(), 20_000),
            ("breaks.while_running".into(), 50_000),
            ("breaks.while_awaiting_input".into(), 1_000),
            ("breaks.with_reply_pending".into(), 1_000),
            ("inspections".into(), 50_000),
            ("inspections_failing_inside_user_function".into(), 2_000),
            ("stop_assign.cases_with_stop_taken".into(), 2_000),
            ("max_stack_depth_at_break".into(), 2),
            ("distinct_nontrivial".into(), 5_000),
        ],
        assumptions: vec![
            "inspection statements are drawn from a side-effect-free set; reading an array that does not exist would create it and is therefore not in the set".into(),
        ],
        exhaustive: false,
        extras: json!({"exhaustive_part": {"programs": rep.get("exhaustive.programs"), "schedules": rep.get("exhaustive.schedules"), "bound": "all non-empty subsets of <= 10 boundaries"}}),
    }
}
