//! C01 — no host interaction sequence can crash or wedge the interpreter.
//!
//! Crash/contract monitor at the API boundary (every call under catch_unwind, post-conditions in
//! drive::Session::post_call_checks), snapshot tripwires, a liveness probe at the end of every history, and
//! child-process probes for native-stack exhaustion (an abort cannot be caught in-process).

use crate::drive::{flush_trips, Op, Session};
use crate::gen::{hist, text};
use crate::props::c16::liveness;
use crate::report::Report;
use crate::runner::{Check, Ctx, Finalize, Tier, Workload};
use crate::util::{hash_str, Rng};
use serde_json::json;
use std::process::{Command, Stdio};

pub fn check() -> Check {
    Check { id: "C01", plan, run_case, finalize }
}

pub const CONSTRUCTS: &[&str] = &[
    "paren", "abs", "subscript", "fn", "unary-not", "if-then", "if-else", "mixed",
    // recursion through user functions whose bodies are themselves deeply nested (frame cap x nesting cap)
    "fn-rec-paren", "fn-rec-abs", "fn-rec-subscript", "fn-mutual", "fn-rec-if",
    // a single token (or short phrase) repeated: any recursion path that is not behind the nesting limit shows here
    "rep:-", "rep:+", "rep:NOT ", "rep:1+", "rep:1^", "rep:1<", "rep:1 AND ", "rep:A,", "rep:\"x\";", "rep::", "rep:?", "rep:A=", "rep:1,",
    "rep:FOR I=1 TO ", "rep:GOSUB 10:", "rep:DATA 1:", "rep:REM", "rep:ELSE ", "rep:THEN ", "rep:DEF FNA(X)=", "rep:INPUT ", "rep:READ ",
];
const DEPTHS_QUICK: &[u64] = &[8, 32, 64, 65, 128, 1000, 100_000];
const DEPTHS_THOROUGH: &[u64] = &[8, 32, 63, 64, 65, 66, 128, 1000, 10_000, 100_000];
const STACKS_KIB: &[u64] = &[1024, 2048, 8192];
const APIS: &[&str] = &["immediate", "program", "analyzer"];

fn grid(tier: Tier) -> Vec<(usize, u64, u64, usize)> {
    let depths = tier.pick(DEPTHS_QUICK, DEPTHS_THOROUGH);
    let stacks: &[u64] = tier.pick(&STACKS_KIB[1..2], STACKS_KIB);
    let mut v = vec![];
    for c in 0..CONSTRUCTS.len() {
        for d in depths {
            for s in stacks {
                for a in 0..APIS.len() {
                    v.push((c, *d, *s, a));
                }
            }
        }
    }
    v
}

fn grid_dev() -> Vec<(usize, u64, u64, usize)> {
    grid(Tier::Thorough).into_iter().filter(|(_, _, stack, _)| *stack >= 2048).collect()
}

fn plan(tier: Tier) -> Vec<Workload> {
    vec![
        Workload::new("histories", tier.pick(60_000, 2_000_000)),
        Workload::new("histories_ship", tier.pick(15_000, 500_000)).ship(),
        Workload::new("catalogue", tier.pick(20_000, 300_000)),
        Workload::new("catalogue_ship", tier.pick(6_000, 100_000)).ship(),
        // the optimised build under valgrind memcheck (invalid / uninitialised heap accesses that behaviour does not show)
        Workload::new("catalogue_memcheck", tier.pick(640, 12_000)).memcheck(),
        Workload::new("histories_memcheck", tier.pick(320, 6_000)).memcheck(),
        Workload::new("depth", grid(tier).len() as u64),
        Workload::new("depth_ship", grid(tier).len() as u64).ship(),
        // unoptimised build (largest frames; what `cargo test` and a debug CLI run): 2 and 8 MiB stacks, thorough only
        Workload { name: "depth_dev", profile: "debug", cases: tier.pick(0, grid_dev().len() as u64), shards: crate::runner::ncores(), watchdog_s: 1500 },
    ]
}

pub fn nested_line(construct: &str, d: usize) -> (Vec<String>, String) {
    // (program lines to enter first, the line under test)
    let open = |s: &str| s.repeat(d);
    match construct {
        "paren" => (vec![], format!("PRINT {}1{}", open("("), open(")"))),
        "abs" => (vec![], format!("PRINT {}1{}", open("ABS("), open(")"))),
        "subscript" => (vec![], format!("PRINT {}1{}", open("A("), open(")"))),
        "fn" => (vec!["1 DEF FNA(X) = X".to_string()], format!("PRINT {}1{}", open("FNA("), open(")"))),
        "unary-not" => (vec![], format!("PRINT {}1{}", open("NOT ("), open(")"))),
        "if-then" => (vec![], format!("{}PRINT 1", open("IF 1 THEN "))),
        "if-else" => (vec![], format!("{}PRINT 2", open("IF 0 THEN PRINT 1 ELSE "))),
        "fn-rec-paren" | "fn-rec-abs" | "fn-rec-subscript" => {
            let k = d.min(62);
            let (o, c) = match construct { "fn-rec-paren" => ("(", ")"), "fn-rec-abs" => ("ABS(", ")"), _ => ("A(", ")") };
            (vec![format!("1 DEF FNF(X) = {}FNF(X + 1){}", o.repeat(k), c.repeat(k))], "PRINT FNF(1)".to_string())
        }
        "fn-mutual" => {
            let k = d.min(40);
            (vec![
                format!("1 DEF FNA(X) = {}FNB(X){}", "(".repeat(k), ")".repeat(k)),
                format!("2 DEF FNB(X) = {}FNA(X){}", "ABS(".repeat(k), ")".repeat(k)),
            ], "PRINT FNA(1)".to_string())
        }
        "fn-rec-if" => {
            let k = d.min(50);
            (vec!["1 DEF FNF(X) = FNF(X + 1) + 1".to_string()], format!("{}PRINT {}FNF(1){}", "IF 1 THEN ".repeat(k / 2), "(".repeat(k / 2), ")".repeat(k / 2)))
        }
        c if c.starts_with("rep:") => {
            let tok = &c[4..];
            let head = if tok.starts_with(|ch: char| ch == '-' || ch == '+' || ch == '1' || ch == 'N' || ch == '"' || ch == 'A') && !tok.starts_with("A=") { "PRINT " } else { "" };
            (vec![], format!("{}{}1", head, tok.repeat(d)))
        }
        _ => (vec![], format!("{}PRINT {}1{}", "IF 1 THEN ".repeat(d / 2), "(".repeat(d / 2), ")".repeat(d / 2))),
    }
}

/// Child side: `abv probe <construct> <depth> <stack_kib> <api>`
pub fn probe_main(args: &[String]) -> i32 {
    if args.len() < 4 {
        return 2;
    }
    let construct = args[0].clone();
    let depth: usize = args[1].parse().unwrap_or(1);
    let stack_kib: usize = args[2].parse().unwrap_or(2048);
    let api = args[3].clone();
    crate::util::install_quiet_panic_hook();
    let handle = std::thread::Builder::new().stack_size(stack_kib * 1024).spawn(move || {
        let (pre, line) = nested_line(&construct, depth);
        let r = crate::util::catch(|| match api.as_str() {
            "analyzer" => {
                let mut text = pre.join("\n");
                if !text.is_empty() {
                    text.push('\n');
                }
                text.push_str(&format!("10 {}", line));
                let a = abasic_core::SourceFileAnalyzer::analyze(text);
                format!("analyzed messages={}", a.messages().len())
            }
            "program" => {
                let mut s = Session::new();
                s.check_invariants = false;
                for l in &pre {
                    s.call(Op::Line(l.clone()));
                }
                s.call(Op::Line(format!("10 {}", line)));
                let out = s.run_line("RUN", 100);
                format!("{} printed={:?}", out.res.outcome().0, crate::util::truncate(&out.printed(), 20))
            }
            _ => {
                let mut s = Session::new();
                s.check_invariants = false;
                for l in &pre {
                    s.call(Op::Line(l.clone()));
                }
                if !pre.is_empty() {
                    s.run_line("RUN", 10);
                }
                let out = s.run_line(&line, 100);
                format!("{} printed={:?}", out.res.outcome().0, crate::util::truncate(&out.printed(), 20))
            }
        });
        match r {
            Ok(s) => println!("RESULT {}", s),
            Err(m) => println!("RESULT PANIC {}", m),
        }
    });
    match handle {
        Ok(h) => {
            let _ = h.join();
            0
        }
        Err(_) => 3,
    }
}

fn catalogue_line(rng: &mut Rng) -> (Vec<String>, Option<String>) {
    let n = text::boundary_numeral(rng);
    let m = text::boundary_numeral(rng);
    let t = rng.below(37);
    let subs = |k: usize, v: &str| vec![v; k].join(",");
    let lines: Vec<String> = match t {
        0 => vec![format!("{} PRINT 1", n), "LIST".into(), "RUN".into()],
        1 => vec![format!("{} PRINT 1", n), format!("{} PRINT 2", m), "RUN".into(), "LIST".into()],
        2 => vec![format!("GOTO {}", n)],
        3 => vec![format!("GOSUB {}", n)],
        4 => vec![format!("10 IF 1 THEN {}", n), "RUN".into()],
        5 => vec![format!("DIM A({})", n)],
        6 => vec![format!("DIM A({},{})", n, m)],
        7 => vec![format!("DIM A({},1)", n), "PRINT A(0,0)".into()],
        8 => vec![format!("PRINT A({})", n)],
        9 => vec![format!("A({}) = 1", n), format!("PRINT A({})", n)],
        10 => vec![format!("PRINT A({},{},{})", n, m, n)],
        11 => vec![format!("FOR I = {} TO {}", n, m), "NEXT I".into(), "NEXT I".into()],
        12 => vec![format!("10 FOR I = 1 TO {} STEP {}", n, m), "20 NEXT I".into(), "RUN".into()],
        13 => vec![format!("PRINT RND({})", n), format!("PRINT RND(-{})", n)],
        14 => vec![format!("PRINT {}", n), format!("PRINT -{}", n), format!("PRINT {} * {}", n, m), format!("PRINT {} ^ {}", n, m)],
        15 => vec![format!("PRINT INT({}), ABS(-{})", n, n), format!("X = {} : PRINT X", n)],
        16 => vec![format!("10 DATA {}, {}", n, m), "20 READ A, B$ : PRINT A; B$".into(), "RUN".into(), "LIST".into()],
        17 => vec!["10 INPUT X : PRINT X".into(), "RUN".into()],
        18 => {
            let k = 1 + rng.usize(40);
            vec![format!("PRINT A({})", subs(k, "1")), format!("B$({}) = \"x\"", subs(k, "0")), format!("DIM C({})", subs(k, "1"))]
        }
        19 => vec![format!("DIM D({})", subs(1 + rng.usize(6), &n))],
        20 => {
            // one-byte and short lines
            let b = rng.below(128) as u8 as char;
            vec![b.to_string(), format!("{}{}", b, rng.below(128) as u8 as char), format!("10{}", b), format!("10 {}", b)]
        }
        21 => vec!["".into(), " ".into(), "\t".into(), "\n".into(), "\r\n".into(), "10\n20".into(), "10 PRINT 1\n20 PRINT 2".into()],
        22 => vec![format!("{}", n), format!(" {} ", n), format!("{}{}", n, n)],
        23 => vec![format!("10 GOTO {}", n), "RUN".into(), format!("10 GOSUB {}", m), "RUN".into()],
        24 => vec![format!("10 DEF FNA(X) = X * {}", n), format!("20 PRINT FNA({})", m), "RUN".into()],
        25 => vec![format!("PRINT \"{}\" + 1", n), format!("PRINT \"{}\" = \"{}\"", n, m), format!("A$ = \"{}\" : PRINT A$", n)],
        26 => vec![format!("REM {}", text::random_line(rng, 10)), format!("10 REM {}", text::random_line(rng, 10)), "LIST".into()],
        27 => vec![format!("10 DATA {}", text::random_line(rng, 10)), "LIST".into(), "20 READ A$ : PRINT A$ : GOTO 20".into(), "RUN".into()],
        28 => vec!["INTERNALS".into(), "STATS".into(), format!("10 PRINT \"{}\"", "é".repeat(rng.usize(50))), "INTERNALS".into(), "STATS".into()],
        29 => vec!["NEW".into()],
        30 => vec![format!("10 PRINT {}", "1+".repeat(rng.usize(3000)) + "1"), "RUN".into()],
        31 => vec![format!("PRINT {}", "A".repeat(1 + rng.usize(5000))), format!("PRINT \"{}\"", "x".repeat(rng.usize(100_000)))],
        32 => vec![format!("{} {}", n, text::random_line(rng, 10)), "RUN".into(), "LIST".into()],
        33..=35 => {
            // immediate-mode commands followed by arguments (ranges, junk), on a stored program
            let small = |rng: &mut Rng| rng.s(&["10", "20", "30", "5", "0", "25", "40"]).to_string();
            let arg = |rng: &mut Rng| if rng.chance(1, 3) { text::boundary_numeral(rng) } else { small(rng) };
            let mut v: Vec<String> = vec!["10 PRINT 1".into(), "20 PRINT 2 : STOP".into(), "30 PRINT 3".into()];
            for _ in 0..1 + rng.usize(4) {
                let cmd = rng.s(&["LIST", "list", "RUN", "CONT", "NEW", "TRACE", "NOTRACE", "STATS", "L I S T", "Run", "INTERNALS"]);
                let (a, b) = (arg(rng), arg(rng));
                v.push(match rng.below(9) {
                    0 => format!("{} {}", cmd, a),
                    1 => format!("{} {}-{}", cmd, a, b),
                    2 => format!("{} {} - {}", cmd, a, b),
                    3 => format!("{} {},{}", cmd, a, b),
                    4 => format!("{} -{}", cmd, a),
                    5 => format!("{} {}-", cmd, a),
                    6 => format!("{}{}", cmd, a),
                    7 => format!("{} {} {}", cmd, a, text::random_line(rng, 6)),
                    _ => format!("{} {}", a, cmd),
                });
            }
            v
        }
        _ => vec![text::random_line(rng, 30), text::random_line(rng, 30)],
    };
    let reply = if t == 17 { Some(n.clone()) } else { None };
    (lines, reply)
}

fn run_case(ctx: &Ctx, index: u64, rep: &mut Report) {
    let mut rng = ctx.rng(index);
    match ctx.workload.as_str() {
        "histories" | "histories_ship" | "histories_memcheck" => {
            let len = 5 + rng.usize(40);
            let (ops, hg) = hist::generate(&mut rng, len, true);
            let mut sess = Session::new();
            sess.keep_log = false;
            let mut ridx = 0;
            let mut calls = 0u64;
            let mut errors = 0u64;
            let mut nonidle = false;
            let mut replies: Vec<String> = hg.replies.clone();
            for _ in 0..3 {
                replies.push(text::random_reply(&mut rng));
            }
            for op in &ops {
                let before = sess.calls;
                hist::apply(&mut sess, op, &replies, &mut ridx);
                calls += sess.calls - before;
                if let Some(r) = sess.log.last() {
                    if let Some(k) = r.res.err_kind() {
                        errors += 1;
                        rep.set("error_kinds", k);
                    }
                    rep.set("states_seen", &format!("{:?}", r.state));
                    if r.state != abasic_core::InterpreterState::Idle {
                        nonidle = true;
                    }
                }
                if sess.poisoned {
                    break;
                }
            }
            let case = || json!({"history": ops.iter().map(|o| format!("{:?}", o)).collect::<Vec<_>>(), "replies": replies});
            if !flush_trips(ctx, rep, index, &sess, case) {
                if let Err(m) = liveness(&mut sess) {
                    ctx.violation(rep, "C01", "wedged", index, format!("after the history the interpreter is wedged: {}", m), case());
                }
                flush_trips(ctx, rep, index, &sess, case);
            }
            rep.add("host_calls", calls);
            rep.add("error_values", errors);
            if errors >= 1 && nonidle && calls >= 5 {
                rep.nontrivial(hash_str(&format!("{:?}", ops.iter().map(|o| format!("{:?}", o)).collect::<Vec<_>>())));
            }
            if rep.want_sample() && index % 2003 == 0 {
                rep.sample(json!({"workload": ctx.workload, "history": ops.iter().take(30).map(|o| format!("{:?}", o)).collect::<Vec<_>>(), "host_calls": calls, "error_values": errors}));
            }
        }
        "catalogue" | "catalogue_ship" | "catalogue_memcheck" => {
            let (lines, reply) = catalogue_line(&mut rng);
            let mid_session = rng.coin();
            let mut sess = Session::new();
            sess.keep_log = false;
            if mid_session {
                for l in ["10 X = 1", "20 GOSUB 40", "30 END", "40 FOR I = 1 TO 2 : READ A$ : NEXT I : RETURN", "50 DATA a, b, c", "RUN", "DIM A(5)"] {
                    sess.run_line(l, 100);
                }
            }
            let seed = if rng.coin() { rng.next_u64() } else { u64::MAX - rng.below(3) };
            sess.call(Op::Randomize(seed));
            let case = || json!({"lines": lines.iter().map(|l| crate::util::truncate(l, 300)).collect::<Vec<_>>(), "reply": reply, "mid_session": mid_session, "seed": seed});
            for l in &lines {
                if sess.poisoned {
                    break;
                }
                sess.settle();
                let mut out = sess.run_line(l, 300);
                let mut guard = 0;
                while !sess.poisoned && sess.state() == abasic_core::InterpreterState::AwaitingInput && guard < 3 {
                    sess.call(Op::Input(reply.clone().unwrap_or_else(|| text::random_reply(&mut rng))));
                    sess.drive(300, &mut out);
                    guard += 1;
                }
                rep.count("catalogue.lines");
                if let Some(k) = out.res.err_kind() {
                    rep.set("error_kinds", k);
                    rep.count("error_values");
                }
            }
            if !flush_trips(ctx, rep, index, &sess, case) {
                if let Err(m) = liveness(&mut sess) {
                    ctx.violation(rep, "C01", "wedged", index, format!("after the boundary lines the interpreter is wedged: {}", m), case());
                }
                flush_trips(ctx, rep, index, &sess, case);
            }
            rep.nontrivial(hash_str(&format!("{:?}{}", lines, mid_session)));
        }
        "depth" | "depth_ship" | "depth_dev" => {
            let g = if ctx.workload == "depth_dev" { grid_dev() } else { grid(ctx.tier) };
            let (c, depth, stack_kib, a) = g[index as usize];
            let construct = CONSTRUCTS[c];
            let api = APIS[a];
            let exe = std::env::current_exe().expect("current exe");
            let out = Command::new(exe)
                .args(["probe", construct, &depth.to_string(), &stack_kib.to_string(), api])
                .env("RUST_BACKTRACE", "0")
                .stdin(Stdio::null())
                .stderr(Stdio::piped())
                .output();
            let cell = format!("{}/{}/depth={}/stack={}KiB/{}", ctx.profile, construct, depth, stack_kib, api);
            match out {
                Err(e) => rep.inconclusive.push(format!("cannot spawn depth probe {}: {}", cell, e)),
                Ok(o) => {
                    use std::os::unix::process::ExitStatusExt;
                    let stdout = String::from_utf8_lossy(&o.stdout).to_string();
                    let stderr = String::from_utf8_lossy(&o.stderr).to_string();
                    if o.status.success() && stdout.contains("RESULT") {
                        let outcome = stdout.lines().find(|l| l.starts_with("RESULT")).unwrap_or("").to_string();
                        if outcome.contains("PANIC") {
                            ctx.violation(rep, "C01", &format!("depth-panic:{}", construct), index,
                                format!("nesting probe {} panicked: {}", cell, outcome), json!({"cell": cell}));
                        }
                        rep.set("depth_grid", &format!("{} -> {}", cell, crate::util::truncate(&outcome, 60)));
                        rep.count("depth.cells_returned");
                        if depth >= 1000 {
                            rep.count("depth.cells_returned_depth_ge_1000");
                        }
                    } else {
                        ctx.violation(rep, "C01", &format!("native-stack:{}:{}", construct, api), index,
                            format!("nesting probe {} killed the process: exit={:?} signal={:?} stderr={}", cell, o.status.code(), o.status.signal(), crate::util::truncate(stderr.trim(), 200)),
                            json!({"cell": cell, "replay_cmd": format!("{}/target/{}/abv probe {} {} {} {}", crate::runner::VERIF_DIR, ctx.profile, construct, depth, stack_kib, api)}));
                    }
                }
            }
            rep.nontrivial(hash_str(&cell));
        }
        other => panic!("unknown workload {}", other),
    }
}

fn finalize(_tier: Tier, rep: &mut Report) -> Finalize {
    Finalize {
        rule: "histories: hostile protocol-respecting G-hist histories (program entry in order or shuffled, runs, breaks, replies incl. arbitrary text, reply-then-break, immediate statements, edits, NEW + replacement, arbitrary UTF-8 and token-soup lines, boundary-numeral line numbers, randomize(any u64)) on the monitor build (overflow checks on) and the ship build; every call under catch_unwind with post-conditions (Err => Idle, caret rendering well-formed), snapshot tripwires, and a liveness probe (settle, PRINT 1) at the end. \
               catalogue: boundary numerals (0 .. 2^64+1, 10^308, 400-digit, '.', '1.') in every numeric position (line number, GOTO/GOSUB/THEN target, DIM bound, subscript, FOR bounds/step, RND argument, literal, DATA item, INPUT reply, seed), 1-40 subscripts, one-byte lines, embedded newlines, very long lines, fresh and mid-session. \
               depth: child-process probes of nested constructs x depth x thread stack size x API (immediate line, program line, static analyzer); a dead child = native stack exhaustion. \
               Non-trivial: history with >= 1 error value, >= 1 non-idle state and >= 5 calls; every catalogue case and depth cell. Distinct by hash.".into(),
        floors: vec![
            ("host_calls".into(), 500_000),
            ("error_values".into(), 50_000),
            ("catalogue.lines".into(), 10_000),
            ("depth.cells_returned".into(), 100),
            ("depth.cells_returned_depth_ge_1000".into(), 20),
            ("distinct_nontrivial".into(), 10_000),
        ],
        assumptions: vec![
            "the wasm stack (1 MiB) is emulated by a 1 MiB native thread on the ship profile; the wasm artefact itself is not executed".into(),
            "non-termination is legitimate: runs are cut by turn caps, never by wall-clock verdicts".into(),
        ],
        exhaustive: false,
        extras: json!({}),
    }
}
