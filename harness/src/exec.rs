//! Running a generated program on the real interpreter and on the reference model, turn by turn.

use crate::drive::{Op, Out, Res, Session};
use crate::model::ast::Program;
use crate::model::prog::{Ev, Machine, Status};
use abasic_core::InterpreterState;
use serde_json::{json, Value};

#[derive(Clone, Debug)]
pub struct RealTurn {
    pub outs: Vec<Out>,
    pub res: Res,
    pub state: InterpreterState,
    pub token_reads: u64,
    pub data_scan: u64,
    /// true when this turn re-executed an INPUT with a reply
    pub was_reply: bool,
    /// variables + arrays in canonical text form, captured when the turn ended AwaitingInput or Idle
    pub digest: Option<Vec<String>>,
}

#[derive(Clone, Debug, Default)]
pub struct RealRun {
    pub turns: Vec<RealTurn>,
    pub capped: bool,
    pub replies_given: usize,
}

impl RealRun {
    pub fn printed(&self) -> String {
        let mut s = String::new();
        for t in &self.turns {
            for o in &t.outs {
                if let Out::Print(p) = o {
                    s.push_str(p);
                }
            }
        }
        s
    }
    pub fn final_res(&self) -> Res {
        self.turns.last().map(|t| t.res.clone()).unwrap_or(Res::Ok)
    }
    pub fn final_state(&self) -> InterpreterState {
        self.turns.last().map(|t| t.state).unwrap_or(InterpreterState::Idle)
    }
}

/// Enter every line of the program; Err(description) if any line is rejected.
pub fn load_program(sess: &mut Session, prog: &Program) -> Result<(), String> {
    for l in prog.text_lines() {
        let rec = sess.call(Op::Line(l.clone()));
        if !rec.res.is_ok() {
            return Err(format!("line {:?} rejected: {}", l, rec.res.to_json()));
        }
    }
    Ok(())
}

pub fn reply_at(replies: &[String], k: usize) -> String {
    if replies.is_empty() {
        "0".to_string()
    } else {
        replies[k % replies.len()].clone()
    }
}

/// RUN and drive to completion (or `turn_cap` executing turns). Replies are taken from the script.
pub fn run_real(sess: &mut Session, start: &str, replies: &[String], turn_cap: usize) -> RealRun {
    let mut run = RealRun::default();
    let rec = sess.call(Op::Line(start.to_string()));
    run.turns.push(RealTurn {
        outs: rec.outs.clone(),
        res: rec.res.clone(),
        state: rec.state,
        token_reads: rec.token_reads,
        data_scan: rec.data_scan,
        was_reply: false,
        digest: digest_if_quiescent(sess),
    });
    continue_real(sess, &mut run, replies, turn_cap);
    run
}

pub fn continue_real(sess: &mut Session, run: &mut RealRun, replies: &[String], turn_cap: usize) {
    loop {
        if sess.poisoned {
            break;
        }
        let last_ok = run.turns.last().map(|t| t.res.is_ok()).unwrap_or(true);
        if !last_ok {
            break;
        }
        match sess.state() {
            InterpreterState::Running => {
                if run.turns.len() >= turn_cap {
                    run.capped = true;
                    break;
                }
                let rec = sess.call(Op::Cont);
                run.turns.push(RealTurn {
                    outs: rec.outs.clone(),
                    res: rec.res.clone(),
                    state: rec.state,
                    token_reads: rec.token_reads,
                    data_scan: rec.data_scan,
                    was_reply: false,
                    digest: digest_if_quiescent(sess),
                });
            }
            InterpreterState::AwaitingInput => {
                if run.turns.len() >= turn_cap {
                    run.capped = true;
                    break;
                }
                let text = reply_at(replies, run.replies_given);
                run.replies_given += 1;
                sess.call(Op::Input(text));
                let rec = sess.call(Op::Cont);
                run.turns.push(RealTurn {
                    outs: rec.outs.clone(),
                    res: rec.res.clone(),
                    state: rec.state,
                    token_reads: rec.token_reads,
                    data_scan: rec.data_scan,
                    was_reply: true,
                    digest: digest_if_quiescent(sess),
                });
            }
            _ => break,
        }
    }
}

#[derive(Clone, Debug)]
pub struct ModelTurn {
    pub events: Vec<Ev>,
    pub status: Status,
    pub line: Option<u64>,
    pub was_reply: bool,
    pub digest: Option<Vec<String>>,
    /// this turn executed only a `:` separator
    pub separator: bool,
}

pub fn digest_if_quiescent(sess: &Session) -> Option<Vec<String>> {
    if sess.poisoned {
        return None;
    }
    match sess.state() {
        InterpreterState::Running => None,
        _ => sess.last_snapshot.as_ref().map(real_digest),
    }
}

/// canonical text of variables and arrays of a real interpreter
pub fn real_digest(s: &abasic_core::verif_hooks::Snapshot) -> Vec<String> {
    let mut v = vec![];
    for (name, kind, text) in &s.variables {
        v.push(format!("var {} = {}:{}", name, kind, text));
    }
    for a in &s.arrays {
        v.push(format!("arr {} {} dims {:?} cells {} set {:?}", a.name, a.kind, a.dimensions, a.cells, a.non_default));
    }
    v
}

/// the same for the model
pub fn model_digest(m: &Machine) -> Vec<String> {
    use crate::model::prog::Val;
    let mut v = vec![];
    let mut names: Vec<&String> = m.vars.keys().collect();
    names.sort();
    for n in names {
        match &m.vars[n] {
            Val::N(x) => v.push(format!("var {} = N:{:?}", n, x)),
            Val::S(x) => v.push(format!("var {} = S:{}", n, x)),
        }
    }
    let mut names: Vec<&String> = m.arrays.keys().collect();
    names.sort();
    for n in names {
        let a = &m.arrays[n];
        let kind = if n.ends_with('$') { 'S' } else { 'N' };
        let mut set: Vec<(usize, String)> = vec![];
        for (i, c) in a.cells.iter().enumerate() {
            match c {
                Val::N(x) if x.to_bits() != 0 => set.push((i, format!("{:?}", x))),
                Val::S(x) if !x.is_empty() => set.push((i, x.clone())),
                _ => {}
            }
        }
        v.push(format!("arr {} {} dims {:?} cells {} set {:?}", n, kind, a.dims, a.cells.len(), set));
    }
    v
}

#[derive(Clone, Debug, Default)]
pub struct ModelRun {
    pub turns: Vec<ModelTurn>,
    pub capped: bool,
    pub replies_given: usize,
    pub resumed_before_else: bool,
    pub stmts_executed: u64,
    pub kinds: Vec<&'static str>,
    pub max_frames: usize,
    pub max_loops: usize,
    pub lines_visited: Vec<u64>,
    pub lines_visited_without_separator_only_visits: Vec<u64>,
}

impl ModelRun {
    pub fn printed(&self) -> String {
        let mut s = String::new();
        for t in &self.turns {
            for e in &t.events {
                if let Ev::Print(p) = e {
                    s.push_str(p);
                }
            }
        }
        s
    }
    pub fn final_status(&self) -> Status {
        self.turns.last().map(|t| t.status.clone()).unwrap_or(Status::Ended)
    }
    /// (kind, line) in the vocabulary of `Res::outcome`
    pub fn outcome(&self) -> (String, Option<u64>) {
        match self.final_status() {
            Status::Failed(f) => (f.kind.to_string(), f.line),
            _ => ("OK".into(), None),
        }
    }
}

pub fn run_model(prog: &Program, seed: u64, replies: &[String], turn_cap: usize) -> ModelRun {
    let mut m = Machine::new(prog, seed);
    let mut run = ModelRun::default();
    loop {
        match m.status {
            Status::Running => {
                if run.turns.len() >= turn_cap {
                    run.capped = true;
                    break;
                }
                let events = m.step();
                let digest = if m.status != Status::Running { Some(model_digest(&m)) } else { None };
                run.turns.push(ModelTurn { events, status: m.status.clone(), line: None, was_reply: false, digest, separator: m.last_step_was_separator });
            }
            Status::AwaitingInput => {
                if run.turns.len() >= turn_cap {
                    run.capped = true;
                    break;
                }
                let text = reply_at(replies, run.replies_given);
                run.replies_given += 1;
                let events = m.reply(&text);
                let digest = if m.status != Status::Running { Some(model_digest(&m)) } else { None };
                run.turns.push(ModelTurn { events, status: m.status.clone(), line: None, was_reply: true, digest, separator: false });
            }
            _ => break,
        }
    }
    run.resumed_before_else = m.resumed_before_else;
    run.stmts_executed = m.stmts_executed;
    run.kinds = m.kinds_executed.iter().copied().collect();
    run.max_frames = m.max_frames;
    run.max_loops = m.max_loops;
    // the lines execution passes through = lines on which a statement is entered (collapsed)
    let mut visited: Vec<u64> = vec![];
    for t in &run.turns {
        for e in &t.events {
            if let Ev::Trace(l) = e {
                if visited.last() != Some(l) {
                    visited.push(*l);
                }
            }
        }
    }
    run.lines_visited = visited;
    // the same without the visits during which nothing but `:` separators were entered (a jump that lands on a trailing
    // `:`): whether a separator is a statement of its own, and so whether such a visit leaves a trace record, is not
    // part of any property (seeded/refactors/colon-not-a-turn.diff)
    let mut visits: Vec<(u64, bool)> = vec![]; // (line, only separators so far)
    for t in &run.turns {
        for e in &t.events {
            if let Ev::Trace(l) = e {
                match visits.last_mut() {
                    Some((line, only_sep)) if *line == *l => *only_sep = *only_sep && t.separator,
                    _ => visits.push((*l, t.separator)),
                }
            }
        }
    }
    let mut alt: Vec<u64> = vec![];
    for (l, only_sep) in visits {
        if !only_sep && alt.last() != Some(&l) {
            alt.push(l);
        }
    }
    run.lines_visited_without_separator_only_visits = alt;
    run
}

pub fn program_json(prog: &Program) -> Value {
    json!(prog.text_lines())
}
