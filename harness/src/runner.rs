//! Parent/worker orchestration, verdicts, evidence and replay files.

use crate::report::{Report, Violation};
use crate::util;
use serde_json::{json, Value};
use std::collections::BTreeMap;
use std::path::{Path, PathBuf};
use std::process::{Command, Stdio};
use std::time::{Duration, Instant};

pub const VERIF_DIR: &str = "/verif";

#[derive(Clone, Copy, Debug, PartialEq)]
pub enum Tier {
    Quick,
    Thorough,
}

impl Tier {
    pub fn name(self) -> &'static str {
        match self {
            Tier::Quick => "quick",
            Tier::Thorough => "thorough",
        }
    }
    pub fn parse(s: &str) -> Option<Tier> {
        match s {
            "quick" => Some(Tier::Quick),
            "thorough" => Some(Tier::Thorough),
            _ => None,
        }
    }
    /// pick by tier
    pub fn pick<T>(self, quick: T, thorough: T) -> T {
        match self {
            Tier::Quick => quick,
            Tier::Thorough => thorough,
        }
    }
}

/// One sharded workload of a check.
#[derive(Clone, Debug)]
pub struct Workload {
    pub name: &'static str,
    /// "monitor" or "ship": which build of the harness (and of abasic-core) runs it.
    pub profile: &'static str,
    /// number of case indices 0..cases
    pub cases: u64,
    /// how many worker processes (usually all cores)
    pub shards: u64,
    /// generous wall-clock watchdog; firing = inconclusive
    pub watchdog_s: u64,
}

impl Workload {
    pub fn new(name: &'static str, cases: u64) -> Self {
        Workload { name, profile: "monitor", cases, shards: ncores(), watchdog_s: 1500 }
    }
    pub fn ship(mut self) -> Self {
        self.profile = "ship";
        self
    }
    /// the ship build under valgrind memcheck (about 30x slower: keep these workloads small)
    pub fn memcheck(mut self) -> Self {
        self.profile = "memcheck";
        self
    }
    pub fn shards(mut self, n: u64) -> Self {
        self.shards = n.max(1);
        self
    }
}

pub fn ncores() -> u64 {
    std::thread::available_parallelism().map(|n| n.get() as u64).unwrap_or(8).min(16)
}

/// Context handed to `run_case`.
pub struct Ctx {
    pub prop: &'static str,
    pub tier: Tier,
    pub seed: u64,
    pub profile: String,
    pub workload: String,
    pub known: KnownFindings,
    pub verbose: bool,
}

impl Ctx {
    pub fn rng(&self, index: u64) -> util::Rng {
        util::Rng::for_case(&format!("{}/{}", self.prop, self.workload), self.seed, index)
    }
    pub fn violation(
        &self,
        rep: &mut Report,
        property: &str,
        signature: &str,
        index: u64,
        explanation: String,
        case: Value,
    ) {
        rep.violation(Violation {
            property: property.to_string(),
            signature: signature.to_string(),
            workload: self.workload.clone(),
            profile: self.profile.clone(),
            seed: self.seed,
            index,
            explanation,
            case,
        });
    }
    /// If `id` is an open known finding, record a hit and return true; otherwise false
    /// (the caller must then report a violation).
    pub fn known_or_violation(
        &self,
        rep: &mut Report,
        id: &str,
        property: &str,
        signature: &str,
        index: u64,
        explanation: String,
        case: Value,
    ) {
        if self.known.is_open(id) {
            rep.known(id, || json!({"explanation": explanation, "case": case, "workload": self.workload, "index": index, "seed": self.seed}));
        } else {
            self.violation(rep, property, signature, index, explanation, case);
        }
    }
}

/// What a property module provides.
pub struct Check {
    pub id: &'static str,
    pub plan: fn(Tier) -> Vec<Workload>,
    pub run_case: fn(&Ctx, u64, &mut Report),
    /// Turns the merged report into the evidence `coverage` extras + floors.
    pub finalize: fn(Tier, &mut Report) -> Finalize,
}

pub struct Finalize {
    pub rule: String,
    /// (counter or max name, minimum) — below the floor ⇒ inconclusive
    pub floors: Vec<(String, u64)>,
    pub assumptions: Vec<String>,
    pub exhaustive: bool,
    pub extras: Value,
}

// ---------------------------------------------------------------- known findings

#[derive(Clone, Debug, Default)]
pub struct KnownFindings {
    /// id -> (property, status, what)
    pub entries: BTreeMap<String, (String, String, String)>,
}

impl KnownFindings {
    pub fn load() -> Self {
        let path = format!("{}/known_findings.json", VERIF_DIR);
        let mut out = KnownFindings::default();
        let Ok(text) = std::fs::read_to_string(&path) else { return out };
        let Ok(v) = serde_json::from_str::<Value>(&text) else { return out };
        if let Some(list) = v.get("findings").and_then(|f| f.as_array()) {
            for f in list {
                let id = f.get("id").and_then(|x| x.as_str()).unwrap_or("").to_string();
                let property = f.get("property").and_then(|x| x.as_str()).unwrap_or("").to_string();
                let status = f.get("status").and_then(|x| x.as_str()).unwrap_or("").to_string();
                let what = f.get("what").and_then(|x| x.as_str()).unwrap_or("").to_string();
                if !id.is_empty() {
                    out.entries.insert(id, (property, status, what));
                }
            }
        }
        out
    }
    pub fn is_open(&self, id: &str) -> bool {
        self.entries.get(id).map(|e| e.1 == "open").unwrap_or(false)
    }
}

// ---------------------------------------------------------------- worker side

pub fn worker_main(check: &Check, args: &[String]) -> i32 {
    // args: tier seed workload profile shard nshards cases outfile
    let tier = Tier::parse(&args[0]).expect("tier");
    let seed: u64 = args[1].parse().expect("seed");
    let workload = args[2].clone();
    let profile = args[3].clone();
    let shard: u64 = args[4].parse().expect("shard");
    let nshards: u64 = args[5].parse().expect("nshards");
    let cases: u64 = args[6].parse().expect("cases");
    let outfile = args[7].clone();
    let progress = std::env::var("ABV_PROGRESS").ok();
    util::install_quiet_panic_hook();
    if std::env::var("ABV_UNDER_MEMCHECK").is_err() {
        // (under valgrind everything is ~30x slower: the CPU budget would not mean the same thing)
        util::start_cpu_watchdog(Some(format!("{}.cpuwatch", outfile)), None);
    }
    let ctx = Ctx {
        prop: check.id,
        tier,
        seed,
        profile,
        workload,
        known: KnownFindings::load(),
        verbose: false,
    };
    let mut rep = Report::default();
    let mut index = shard;
    while index < cases {
        if let Some(p) = &progress {
            let _ = std::fs::write(p, index.to_string());
        }
        rep.evaluations += 1;
        util::CURRENT_INDEX.store(index, std::sync::atomic::Ordering::Relaxed);
        let r = util::catch_harness(|| (check.run_case)(&ctx, index, &mut rep));
        if let Err(msg) = r {
            if msg.contains("/repo/") || msg.contains("abasic-") {
                ctx.violation(
                    &mut rep,
                    check.id,
                    &format!("escaped-panic:{}", msg.rsplit(" @ ").next().unwrap_or("")),
                    index,
                    format!("panic in repository code escaped the driver: {}", msg),
                    json!({"note": "re-run with --replay to regenerate the case"}),
                );
            } else {
                rep.inconclusive.push(format!("harness panic in case {}: {}", index, msg));
            }
        }
        index += nshards;
    }
    // nontrivial hashes travel in a binary side file (can be millions)
    let hashes = std::mem::take(&mut rep.nontrivial_hashes);
    let mut raw = Vec::with_capacity(hashes.len() * 8);
    for h in &hashes {
        raw.extend_from_slice(&h.to_le_bytes());
    }
    if std::fs::write(format!("{}.hashes", outfile), raw).is_err() {
        return 3;
    }
    let text = serde_json::to_string(&rep).expect("serialize report");
    if std::fs::write(&outfile, text).is_err() {
        return 3;
    }
    0
}

// ---------------------------------------------------------------- parent side

fn exe_for_profile(profile: &str) -> PathBuf {
    let dir = if profile == "memcheck" { "ship" } else { profile };
    PathBuf::from(format!("{}/target/{}/abv", VERIF_DIR, dir))
}

pub const MEMCHECK_EXIT: i32 = 97;

/// The command that runs the harness binary of a profile (`memcheck` = the ship build under valgrind).
fn command_for_profile(profile: &str) -> Command {
    if profile == "memcheck" {
        let mut c = Command::new("valgrind");
        c.arg("-q")
            .arg(format!("--error-exitcode={}", MEMCHECK_EXIT))
            .arg("--exit-on-first-error=yes")
            .arg("--leak-check=no")
            .arg("--num-callers=30")
            .arg(exe_for_profile(profile))
            .env("ABV_UNDER_MEMCHECK", "1");
        c
    } else {
        Command::new(exe_for_profile(profile))
    }
}

fn tmp_dir() -> PathBuf {
    let p = PathBuf::from(format!("{}/target/tmp", VERIF_DIR));
    let _ = std::fs::create_dir_all(&p);
    p
}

struct ShardOutcome {
    /// Some(description) when one case used its whole CPU budget outside repository code (a harness problem)
    harness_stuck: Option<String>,
    /// Some((case index, CPU seconds)) when the worker's CPU watchdog cut off a call that did not return
    cpu_trip: Option<(u64, u64)>,
    report: Option<Report>,
    /// Some(description) when the process died abnormally
    death: Option<String>,
    timed_out: bool,
}

fn run_shards(check: &Check, tier: Tier, seed: u64, w: &Workload) -> Vec<ShardOutcome> {
    let nshards = w.shards.min(w.cases.max(1));
    let mut children = vec![];
    for shard in 0..nshards {
        let outfile = tmp_dir().join(format!("{}-{}-{}-{}.json", check.id, w.name, w.profile, shard));
        let _ = std::fs::remove_file(&outfile);
        let child = command_for_profile(w.profile)
            .arg("worker")
            .arg(check.id)
            .arg(tier.name())
            .arg(seed.to_string())
            .arg(w.name)
            .arg(w.profile)
            .arg(shard.to_string())
            .arg(nshards.to_string())
            .arg(w.cases.to_string())
            .arg(&outfile)
            .env("RUST_BACKTRACE", "0")
            .env("RUST_LIB_BACKTRACE", "0")
            .env("NO_COLOR", "1")
            .env_remove("ABV_PROGRESS")
            .stdin(Stdio::null())
            .stdout(Stdio::null())
            .stderr(Stdio::piped())
            .spawn();
        children.push((shard, outfile, child));
    }
    let deadline = Instant::now() + Duration::from_secs(w.watchdog_s);
    let mut outcomes = vec![];
    for (shard, outfile, child) in children {
        let mut outcome = ShardOutcome { harness_stuck: None, cpu_trip: None, report: None, death: None, timed_out: false };
        match child {
            Err(e) => {
                outcome.death = None;
                outcome.timed_out = true; // cannot spawn => inconclusive
                eprintln!("abv: cannot spawn worker {}: {}", shard, e);
            }
            Ok(mut child) => {
                // drain stderr in a thread to avoid blocking
                let mut stderr = child.stderr.take();
                let err_thread = std::thread::spawn(move || {
                    let mut buf = String::new();
                    if let Some(s) = stderr.as_mut() {
                        use std::io::Read;
                        let mut raw = vec![];
                        let _ = s.read_to_end(&mut raw);
                        buf = String::from_utf8_lossy(&raw).to_string();
                    }
                    buf
                });
                let status = loop {
                    match child.try_wait() {
                        Ok(Some(st)) => break Some(st),
                        Ok(None) => {
                            if Instant::now() > deadline {
                                let _ = child.kill();
                                let _ = child.wait();
                                outcome.timed_out = true;
                                break None;
                            }
                            std::thread::sleep(Duration::from_millis(20));
                        }
                        Err(_) => break None,
                    }
                };
                let stderr_text = err_thread.join().unwrap_or_default();
                if let Some(st) = status {
                    if st.success() {
                        match std::fs::read_to_string(&outfile)
                            .ok()
                            .and_then(|t| serde_json::from_str::<Report>(&t).ok())
                        {
                            Some(mut r) => {
                                let hp = format!("{}.hashes", outfile.display());
                                if let Ok(raw) = std::fs::read(&hp) {
                                    r.nontrivial_hashes = raw
                                        .chunks_exact(8)
                                        .map(|c| u64::from_le_bytes(c.try_into().unwrap()))
                                        .collect();
                                }
                                let _ = std::fs::remove_file(&hp);
                                outcome.report = Some(r)
                            }
                            None => outcome.death = Some("worker exited 0 without a report".into()),
                        }
                    } else if st.code() == Some(util::CASE_WATCHDOG_EXIT) {
                        let wf = format!("{}.cpuwatch", outfile.display());
                        let text = std::fs::read_to_string(&wf).unwrap_or_default();
                        let _ = std::fs::remove_file(&wf);
                        outcome.harness_stuck = Some(text);
                    } else if st.code() == Some(util::CPU_WATCHDOG_EXIT) {
                        let wf = format!("{}.cpuwatch", outfile.display());
                        let v = std::fs::read_to_string(&wf).ok().and_then(|t| serde_json::from_str::<Value>(&t).ok());
                        let _ = std::fs::remove_file(&wf);
                        match v {
                            Some(v) => outcome.cpu_trip = Some((v["index"].as_u64().unwrap_or(0), v["cpu_seconds"].as_u64().unwrap_or(0))),
                            None => outcome.death = Some("worker exited with the CPU watchdog's code but left no report".into()),
                        }
                    } else {
                        use std::os::unix::process::ExitStatusExt;
                        outcome.death = Some(format!(
                            "worker died: exit={:?} signal={:?} stderr={}",
                            st.code(),
                            st.signal(),
                            util::truncate(stderr_text.trim(), 600)
                        ));
                    }
                }
                let _ = std::fs::remove_file(&outfile);
            }
        }
        outcomes.push(outcome);
    }
    outcomes
}

/// After a worker died: re-run that shard alone with a progress file to find the case index.
fn locate_death(check: &Check, tier: Tier, seed: u64, w: &Workload, shard: u64, nshards: u64) -> Option<u64> {
    let progress = tmp_dir().join(format!("{}-{}-{}.progress", check.id, w.name, shard));
    let outfile = tmp_dir().join(format!("{}-{}-{}.careful.json", check.id, w.name, shard));
    let _ = std::fs::remove_file(&progress);
    let mut child = command_for_profile(w.profile)
        .arg("worker")
        .arg(check.id)
        .arg(tier.name())
        .arg(seed.to_string())
        .arg(w.name)
        .arg(w.profile)
        .arg(shard.to_string())
        .arg(nshards.to_string())
        .arg(w.cases.to_string())
        .arg(&outfile)
        .env("RUST_BACKTRACE", "0")
        .env("RUST_LIB_BACKTRACE", "0")
        .env("ABV_PROGRESS", &progress)
        .stdin(Stdio::null())
        .stdout(Stdio::null())
        .stderr(Stdio::null())
        .spawn()
        .ok()?;
    let deadline = Instant::now() + Duration::from_secs(w.watchdog_s);
    loop {
        match child.try_wait() {
            Ok(Some(_)) => break,
            Ok(None) => {
                if Instant::now() > deadline {
                    let _ = child.kill();
                    let _ = child.wait();
                    break;
                }
                std::thread::sleep(Duration::from_millis(20));
            }
            Err(_) => break,
        }
    }
    let idx = std::fs::read_to_string(&progress).ok()?.trim().parse::<u64>().ok();
    let _ = std::fs::remove_file(&progress);
    let _ = std::fs::remove_file(&outfile);
    idx
}

pub fn parent_main(check: &Check, tier: Tier) -> i32 {
    let started = Instant::now();
    let seed: u64 = std::env::var("VERIF_SEED").ok().and_then(|s| s.trim().parse().ok()).unwrap_or(1);
    let known = KnownFindings::load();
    let plan = (check.plan)(tier);
    let mut merged = Report::default();
    let mut per_workload = vec![];
    for w in &plan {
        let t0 = Instant::now();
        let nshards = w.shards.min(w.cases.max(1));
        let outcomes = run_shards(check, tier, seed, w);
        let mut wl_evals = 0;
        for (shard, o) in outcomes.into_iter().enumerate() {
            if o.timed_out {
                merged.inconclusive.push(format!(
                    "workload {} shard {}: watchdog ({} s) fired or worker could not be spawned",
                    w.name, shard, w.watchdog_s
                ));
                continue;
            }
            if let Some(what) = o.harness_stuck {
                merged.inconclusive.push(format!("workload {} shard {}: a case did not finish within its CPU budget outside repository code ({})", w.name, shard, what));
                continue;
            }
            if let Some((index, cpu_s)) = o.cpu_trip {
                merged.violation(Violation {
                    property: "C09".to_string(),
                    signature: format!("call-does-not-return:cpu:{}", w.name),
                    workload: w.name.to_string(),
                    profile: w.profile.to_string(),
                    seed,
                    index,
                    explanation: format!(
                        "one call into the repository's code used {} s of CPU time without handing control back (case {} of workload {}; the budget is {} s, the longest legitimate call is under 1 s); the case is regenerated by --replay",
                        cpu_s, index, w.name, util::CPU_BUDGET_TICKS / 100
                    ),
                    case: json!({"note": "regenerate with: ./check <ID> --replay <this file>"}),
                });
                continue;
            }
            if let Some(death) = o.death {
                // attribute to a case
                let idx = locate_death(check, tier, seed, w, shard as u64, nshards);
                match idx {
                    Some(index) => {
                        merged.violation(Violation {
                            property: check.id.to_string(),
                            signature: if death.contains("exit=Some(97)") { format!("memcheck:{}", w.name) } else { format!("process-death:{}", w.name) },
                            workload: w.name.to_string(),
                            profile: w.profile.to_string(),
                            seed,
                            index,
                            explanation: format!(
                                "worker process died while executing case {} of workload {} ({}); the case is regenerated by --replay",
                                index, w.name, death
                            ),
                            case: json!({"note": "regenerate with: ./check <ID> --replay <this file>"}),
                        });
                    }
                    None => merged.inconclusive.push(format!(
                        "workload {} shard {}: {} and the failing case could not be located",
                        w.name, shard, death
                    )),
                }
                continue;
            }
            if let Some(r) = o.report {
                wl_evals += r.evaluations;
                merged.merge(r);
            }
        }
        per_workload.push(json!({
            "workload": w.name, "profile": w.profile, "cases_planned": w.cases,
            "cases_executed": wl_evals, "shards": nshards,
            "wall_s": (t0.elapsed().as_secs_f64()*100.0).round()/100.0
        }));
    }

    if merged.samples.is_empty() && merged.violations.is_empty() {
        merged.inconclusive.push("no sample case was recorded by any worker".into());
    }
    let fin = (check.finalize)(tier, &mut merged);
    let distinct = merged.distinct_nontrivial();
    // floors
    for (key, min) in &fin.floors {
        let have = if key == "distinct_nontrivial" {
            distinct
        } else if key == "evaluations" {
            merged.evaluations
        } else {
            merged.get(key).max(merged.get_max(key))
        };
        if have < *min {
            merged.inconclusive.push(format!("floor not met: {} = {} < {}", key, have, min));
        }
    }

    // replays + lines
    let mut lines = vec![];
    let mut n_viol = 0;
    let replay_dir = PathBuf::from(format!("{}/replays", VERIF_DIR));
    let _ = std::fs::create_dir_all(&replay_dir);
    for v in &merged.violations {
        n_viol += 1;
        let path = replay_dir.join(format!(
            "{}-{}-{}-{}-{}.json",
            v.property, check.id, v.workload, v.seed, v.index
        ));
        let body = json!({
            "property": v.property, "check": check.id, "signature": v.signature,
            "workload": v.workload, "profile": v.profile, "tier": tier.name(),
            "seed": v.seed, "index": v.index,
            "explanation": v.explanation, "case": v.case,
        });
        let _ = std::fs::write(&path, serde_json::to_string_pretty(&body).unwrap_or_default());
        lines.push(format!("VIOLATION property={} replay={}", v.property, path.display()));
        eprintln!("  [{}] {}", v.signature, util::truncate(&v.explanation, 1500));
    }
    let mut known_json = vec![];
    for (id, hit) in &merged.known {
        let (prop, _status, what) = known
            .entries
            .get(id)
            .cloned()
            .unwrap_or((check.id.to_string(), "open".into(), String::new()));
        println!("KNOWN-FINDING: property={} {} {} (observed {} times this run)", prop, id, what, hit.count);
        known_json.push(json!({"id": id, "property": prop, "hits": hit.count, "example": hit.example}));
    }

    let verdict = if n_viol > 0 {
        "violated"
    } else if !merged.inconclusive.is_empty() {
        "inconclusive"
    } else {
        "held"
    };

    // evidence
    let wall = started.elapsed().as_secs_f64();
    let mut coverage = serde_json::Map::new();
    coverage.insert("evaluations".into(), json!(merged.evaluations));
    coverage.insert("distinct_nontrivial".into(), json!(distinct));
    coverage.insert("rule".into(), json!(fin.rule));
    coverage.insert("samples".into(), json!(merged.samples));
    coverage.insert("exhaustive".into(), json!(fin.exhaustive));
    coverage.insert("workloads".into(), json!(per_workload));
    coverage.insert("counters".into(), json!(merged.counters));
    coverage.insert("maxima".into(), json!(merged.maxes));
    coverage.insert("observed_sets".into(), json!(merged.sets));
    coverage.insert("inconclusive".into(), json!(merged.inconclusive));
    coverage.insert("known_findings_hit".into(), json!(known_json));
    coverage.insert("verdict".into(), json!(verdict));
    if !merged.notes.is_empty() {
        let mut notes = merged.notes.clone();
        notes.sort();
        notes.dedup();
        notes.truncate(40);
        coverage.insert("notes".into(), json!(notes));
    }
    if let Value::Object(extra) = fin.extras {
        for (k, v) in extra {
            coverage.insert(k, v);
        }
    }
    let evidence = json!({
        "property_id": check.id,
        "tier": tier.name(),
        "seed": seed,
        "level": "exploration",
        "coverage": Value::Object(coverage),
        "assumptions": fin.assumptions,
        "wall_s": (wall * 100.0).round() / 100.0,
        "violations": n_viol,
    });
    let ev_path = format!("{}/evidence/{}.json", VERIF_DIR, check.id);
    let _ = std::fs::create_dir_all(format!("{}/evidence", VERIF_DIR));
    if let Err(e) = std::fs::write(&ev_path, serde_json::to_string_pretty(&evidence).unwrap_or_default()) {
        eprintln!("abv: cannot write {}: {}", ev_path, e);
    }

    println!(
        "{} {} seed={} verdict={} evaluations={} distinct_nontrivial={} wall={:.1}s",
        check.id,
        tier.name(),
        seed,
        verdict,
        merged.evaluations,
        distinct,
        wall
    );
    for l in &lines {
        println!("{}", l);
    }
    match verdict {
        "violated" => 1,
        "inconclusive" => {
            for r in &merged.inconclusive {
                println!("INCONCLUSIVE property={} reason={}", check.id, util::truncate(r, 400));
            }
            2
        }
        _ => 0,
    }
}

/// Re-execute exactly one recorded case, verbosely.
pub fn replay_main(checks: &[Check], path: &Path) -> i32 {
    let Ok(text) = std::fs::read_to_string(path) else {
        eprintln!("cannot read {}", path.display());
        return 2;
    };
    let Ok(v) = serde_json::from_str::<Value>(&text) else {
        eprintln!("cannot parse {}", path.display());
        return 2;
    };
    let check_id = v.get("check").and_then(|x| x.as_str()).unwrap_or("");
    let Some(check) = checks.iter().find(|c| c.id == check_id) else {
        eprintln!("unknown check {}", check_id);
        return 2;
    };
    let profile = v.get("profile").and_then(|x| x.as_str()).unwrap_or("monitor").to_string();
    let this_profile = current_profile();
    if profile == "memcheck" && std::env::var("ABV_UNDER_MEMCHECK").is_err() {
        let code = command_for_profile("memcheck").arg("replay").arg(path).status().ok().and_then(|s| s.code()).unwrap_or(2);
        if code == MEMCHECK_EXIT {
            println!("valgrind memcheck reported an error while the case ran (see above)");
            println!("VIOLATION property={} replay={}", check.id, path.display());
            return 1;
        }
        return code;
    }
    if profile != this_profile && !(profile == "memcheck" && this_profile == "ship") {
        // re-exec under the right build
        let status = Command::new(exe_for_profile(&profile)).arg("replay").arg(path).status();
        return status.ok().and_then(|s| s.code()).unwrap_or(2);
    }
    util::install_quiet_panic_hook();
    let ctx = Ctx {
        prop: check.id,
        tier: Tier::parse(v.get("tier").and_then(|x| x.as_str()).unwrap_or("quick")).unwrap_or(Tier::Quick),
        seed: v.get("seed").and_then(|x| x.as_u64()).unwrap_or(1),
        profile,
        workload: v.get("workload").and_then(|x| x.as_str()).unwrap_or("").to_string(),
        known: KnownFindings::load(),
        verbose: true,
    };
    let index = v.get("index").and_then(|x| x.as_u64()).unwrap_or(0);
    let mut rep = Report::default();
    util::CURRENT_INDEX.store(index, std::sync::atomic::Ordering::Relaxed);
    util::start_cpu_watchdog(None, Some(path.display().to_string()));
    let r = util::catch_harness(|| (check.run_case)(&ctx, index, &mut rep));
    if let Err(m) = r {
        println!("case panicked: {}", m);
        println!("VIOLATION property={} replay={}", check.id, path.display());
        return 1;
    }
    for (id, hit) in &rep.known {
        println!("KNOWN-FINDING: property={} {} {}", check.id, id, hit.example);
    }
    if rep.violations.is_empty() {
        println!("replay of {} case {}: no violation reproduced", check.id, index);
        0
    } else {
        for viol in &rep.violations {
            println!("explanation: {}", viol.explanation);
            println!("case: {}", serde_json::to_string_pretty(&viol.case).unwrap_or_default());
            println!("VIOLATION property={} replay={}", viol.property, path.display());
        }
        1
    }
}

pub fn current_profile() -> String {
    std::env::current_exe()
        .ok()
        .and_then(|p| p.parent().and_then(|d| d.file_name()).map(|n| n.to_string_lossy().to_string()))
        .unwrap_or_else(|| "monitor".into())
}
