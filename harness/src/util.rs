//! Small deterministic utilities: PRNG, hashing, panic capture.

use std::panic::{catch_unwind, AssertUnwindSafe};

/// splitmix64: tiny, fast, good enough for workload generation.
#[derive(Clone, Debug)]
pub struct Rng(pub u64);

impl Rng {
    pub fn new(seed: u64) -> Self {
        Rng(seed)
    }
    /// PRNG for one case: a pure function of (workload tag, seed, index).
    pub fn for_case(tag: &str, seed: u64, index: u64) -> Self {
        let mut r = Rng(hash64(tag.as_bytes()) ^ seed.wrapping_mul(0x9E3779B97F4A7C15));
        let a = r.next_u64();
        let mut r2 = Rng(a ^ index.wrapping_mul(0xD1B54A32D192ED03));
        r2.next_u64();
        r2
    }
    pub fn next_u64(&mut self) -> u64 {
        self.0 = self.0.wrapping_add(0x9E3779B97F4A7C15);
        let mut z = self.0;
        z = (z ^ (z >> 30)).wrapping_mul(0xBF58476D1CE4E5B9);
        z = (z ^ (z >> 27)).wrapping_mul(0x94D049BB133111EB);
        z ^ (z >> 31)
    }
    /// uniform in 0..n (n > 0)
    pub fn below(&mut self, n: u64) -> u64 {
        debug_assert!(n > 0);
        self.next_u64() % n
    }
    pub fn usize(&mut self, n: usize) -> usize {
        self.below(n as u64) as usize
    }
    /// inclusive range
    pub fn range(&mut self, lo: i64, hi: i64) -> i64 {
        lo + self.below((hi - lo + 1) as u64) as i64
    }
    /// true with probability num/den
    pub fn chance(&mut self, num: u64, den: u64) -> bool {
        self.below(den) < num
    }
    pub fn pick<'a, T>(&mut self, items: &'a [T]) -> &'a T {
        &items[self.usize(items.len())]
    }
    /// pick a string slice
    pub fn s<'a>(&mut self, items: &[&'a str]) -> &'a str {
        items[self.usize(items.len())]
    }
    pub fn coin(&mut self) -> bool {
        self.next_u64() & 1 == 1
    }
}

/// FNV-1a 64 followed by a finalizer.
pub fn hash64(bytes: &[u8]) -> u64 {
    let mut h: u64 = 0xcbf29ce484222325;
    for b in bytes {
        h ^= *b as u64;
        h = h.wrapping_mul(0x100000001b3);
    }
    h ^= h >> 32;
    h = h.wrapping_mul(0xD6E8FEB86659FD93);
    h ^ (h >> 32)
}

pub fn hash_str(s: &str) -> u64 {
    hash64(s.as_bytes())
}

/// Run `f`, turning a panic into `Err(message)`.
pub fn catch<T>(f: impl FnOnce() -> T) -> Result<T, String> {
    match catch_unwind(AssertUnwindSafe(f)) {
        Ok(v) => Ok(v),
        Err(payload) => {
            let msg = if let Some(s) = payload.downcast_ref::<&str>() {
                s.to_string()
            } else if let Some(s) = payload.downcast_ref::<String>() {
                s.clone()
            } else {
                "<non-string panic payload>".to_string()
            };
            let loc = LAST_PANIC_LOCATION.with(|l| l.borrow().clone());
            Err(format!("{} @ {}", msg, loc))
        }
    }
}

thread_local! {
    pub static LAST_PANIC_LOCATION: std::cell::RefCell<String> = std::cell::RefCell::new(String::new());
}

/// Install a quiet panic hook that records the panic location instead of
/// printing to stderr (millions of expected catch_unwind calls must not spam).
pub fn install_quiet_panic_hook() {
    std::panic::set_hook(Box::new(|info| {
        let loc = info
            .location()
            .map(|l| format!("{}:{}", l.file(), l.line()))
            .unwrap_or_default();
        LAST_PANIC_LOCATION.with(|l| *l.borrow_mut() = loc);
    }));
}

pub fn truncate(s: &str, n: usize) -> String {
    if s.len() <= n {
        s.to_string()
    } else {
        let mut end = n;
        while !s.is_char_boundary(end) {
            end -= 1;
        }
        format!("{}…(+{} bytes)", &s[..end], s.len() - end)
    }
}
