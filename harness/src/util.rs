//! Small deterministic utilities: PRNG, hashing, panic capture.

use std::panic::{catch_unwind, AssertUnwindSafe};

/// splitmix64: tiny, fast, good enough for workload generation.
#[derive(Clone, Debug)]
pub struct Rng(pub u64);

impl Rng {
    pub fn new(seed: u64) -> Self {
        Rng(seed)
    }
    /// PRNG for one case: a pure function of (workload tag, seed, index).
    pub fn for_case(tag: &str, seed: u64, index: u64) -> Self {
        let mut r = Rng(hash64(tag.as_bytes()) ^ seed.wrapping_mul(0x9E3779B97F4A7C15));
        let a = r.next_u64();
        let mut r2 = Rng(a ^ index.wrapping_mul(0xD1B54A32D192ED03));
        r2.next_u64();
        r2
    }
    pub fn next_u64(&mut self) -> u64 {
        self.0 = self.0.wrapping_add(0x9E3779B97F4A7C15);
        let mut z = self.0;
        z = (z ^ (z >> 30)).wrapping_mul(0xBF58476D1CE4E5B9);
        z = (z ^ (z >> 27)).wrapping_mul(0x94D049BB133111EB);
        z ^ (z >> 31)
    }
    /// uniform in 0..n (n > 0)
    pub fn below(&mut self, n: u64) -> u64 {
        debug_assert!(n > 0);
        self.next_u64() % n
    }
    pub fn usize(&mut self, n: usize) -> usize {
        self.below(n as u64) as usize
    }
    /// inclusive range
    pub fn range(&mut self, lo: i64, hi: i64) -> i64 {
        lo + self.below((hi - lo + 1) as u64) as i64
    }
    /// true with probability num/den
    pub fn chance(&mut self, num: u64, den: u64) -> bool {
        self.below(den) < num
    }
    pub fn pick<'a, T>(&mut self, items: &'a [T]) -> &'a T {
        &items[self.usize(items.len())]
    }
    /// pick a string slice
    pub fn s<'a>(&mut self, items: &[&'a str]) -> &'a str {
        items[self.usize(items.len())]
    }
    pub fn coin(&mut self) -> bool {
        self.next_u64() & 1 == 1
    }
}

/// FNV-1a 64 followed by a finalizer.
pub fn hash64(bytes: &[u8]) -> u64 {
    let mut h: u64 = 0xcbf29ce484222325;
    for b in bytes {
        h ^= *b as u64;
        h = h.wrapping_mul(0x100000001b3);
    }
    h ^= h >> 32;
    h = h.wrapping_mul(0xD6E8FEB86659FD93);
    h ^ (h >> 32)
}

pub fn hash_str(s: &str) -> u64 {
    hash64(s.as_bytes())
}

// ---- logical watchdog on CPU time -------------------------------------------------------------------
// Every call into repository code goes through `catch`. It bumps a sequence number and a depth counter; a
// watchdog thread samples them together with the CPU time the main thread has consumed (not wall time: a
// loaded machine does not advance it). One and the same call still in progress after CPU_BUDGET_TICKS of
// CPU time is a call that does not hand control back (C09); the worker reports it and exits with code 98.
pub static CALL_SEQ: std::sync::atomic::AtomicU64 = std::sync::atomic::AtomicU64::new(0);
pub static CALL_DEPTH: std::sync::atomic::AtomicU32 = std::sync::atomic::AtomicU32::new(0);
pub static CURRENT_INDEX: std::sync::atomic::AtomicU64 = std::sync::atomic::AtomicU64::new(0);
/// 30 s of CPU time in clock ticks (USER_HZ = 100). The longest legitimate call measured is well under 1 s
/// (the token-read budget of 5 M reads already cuts interpreter calls at about that point).
pub const CPU_BUDGET_TICKS: u64 = 3000;
pub const CPU_WATCHDOG_EXIT: i32 = 98;
/// CPU time one case may use in total (600 s; the heaviest legitimate case uses a few seconds)
pub const CASE_CPU_BUDGET_TICKS: u64 = 60_000;
pub const CASE_WATCHDOG_EXIT: i32 = 96;

/// CPU time (utime + stime, clock ticks) consumed so far by the thread `tid` of this process.
fn thread_cpu_ticks(tid: u32) -> Option<u64> {
    let stat = std::fs::read_to_string(format!("/proc/self/task/{}/stat", tid)).ok()?;
    let rest = &stat[stat.rfind(')')? + 1..];
    let f: Vec<&str> = rest.split_whitespace().collect();
    Some(f.get(11)?.parse::<u64>().ok()? + f.get(12)?.parse::<u64>().ok()?)
}

/// Start the watchdog for the calling (main) thread. `report` is the file the trip is described in.
pub fn start_cpu_watchdog(report: Option<String>, replay_path: Option<String>) {
    use std::sync::atomic::Ordering::Relaxed;
    let tid = std::process::id(); // the main thread's tid equals the pid
    std::thread::spawn(move || {
        let mut last_seq = u64::MAX;
        let mut ticks_at_first_seen = 0u64;
        let mut last_index = u64::MAX;
        let mut ticks_at_case_start = 0u64;
        loop {
            std::thread::sleep(std::time::Duration::from_millis(250));
            let (seq, depth) = (CALL_SEQ.load(Relaxed), CALL_DEPTH.load(Relaxed));
            let Some(ticks) = thread_cpu_ticks(tid) else { continue };
            // one case that burns CASE_CPU_BUDGET_TICKS of CPU without finishing and without being stuck in one
            // repository call is a loop in the harness itself: inconclusive, and no reason to wait for the parent's watchdog
            let index = CURRENT_INDEX.load(Relaxed);
            if index != last_index {
                last_index = index;
                ticks_at_case_start = ticks;
            } else if ticks.saturating_sub(ticks_at_case_start) > CASE_CPU_BUDGET_TICKS && report.is_some() {
                if let Some(path) = &report {
                    let _ = std::fs::write(path, format!("{{\"index\": {}, \"harness_case_cpu_seconds\": {}}}", index, CASE_CPU_BUDGET_TICKS / 100));
                }
                std::process::exit(CASE_WATCHDOG_EXIT);
            }
            if depth == 0 || seq != last_seq {
                last_seq = seq;
                ticks_at_first_seen = ticks;
                continue;
            }
            let used = ticks.saturating_sub(ticks_at_first_seen);
            if used > CPU_BUDGET_TICKS {
                let index = CURRENT_INDEX.load(Relaxed);
                let text = format!("{{\"index\": {}, \"cpu_seconds\": {}}}", index, used / 100);
                match &report {
                    Some(path) => {
                        let _ = std::fs::write(path, text);
                    }
                    None => {
                        println!("one call into the repository's code has used {} s of CPU time without returning (case {})", used / 100, index);
                        println!("VIOLATION property=C09 replay={}", replay_path.clone().unwrap_or_default());
                    }
                }
                std::process::exit(CPU_WATCHDOG_EXIT);
            }
        }
    });
}

/// Run harness code, turning a panic into `Err(message)` (not counted as a call into the repository).
pub fn catch_harness<T>(f: impl FnOnce() -> T) -> Result<T, String> {
    catch_impl(f)
}

/// Run `f` (a call into the repository's code), turning a panic into `Err(message)`.
pub fn catch<T>(f: impl FnOnce() -> T) -> Result<T, String> {
    use std::sync::atomic::Ordering::Relaxed;
    CALL_SEQ.fetch_add(1, Relaxed);
    CALL_DEPTH.fetch_add(1, Relaxed);
    let r = catch_impl(f);
    CALL_DEPTH.fetch_sub(1, Relaxed);
    CALL_SEQ.fetch_add(1, Relaxed);
    r
}

fn catch_impl<T>(f: impl FnOnce() -> T) -> Result<T, String> {
    match catch_unwind(AssertUnwindSafe(f)) {
        Ok(v) => Ok(v),
        Err(payload) => {
            let msg = if let Some(s) = payload.downcast_ref::<&str>() {
                s.to_string()
            } else if let Some(s) = payload.downcast_ref::<String>() {
                s.clone()
            } else {
                "<non-string panic payload>".to_string()
            };
            let loc = LAST_PANIC_LOCATION.with(|l| l.borrow().clone());
            Err(format!("{} @ {}", msg, loc))
        }
    }
}

thread_local! {
    pub static LAST_PANIC_LOCATION: std::cell::RefCell<String> = std::cell::RefCell::new(String::new());
}

/// Install a quiet panic hook that records the panic location instead of
/// printing to stderr (millions of expected catch_unwind calls must not spam).
pub fn install_quiet_panic_hook() {
    std::panic::set_hook(Box::new(|info| {
        let loc = info
            .location()
            .map(|l| format!("{}:{}", l.file(), l.line()))
            .unwrap_or_default();
        LAST_PANIC_LOCATION.with(|l| *l.borrow_mut() = loc);
    }));
}

pub fn truncate(s: &str, n: usize) -> String {
    if s.len() <= n {
        s.to_string()
    } else {
        let mut end = n;
        while !s.is_char_boundary(end) {
            end -= 1;
        }
        format!("{}…(+{} bytes)", &s[..end], s.len() - end)
    }
}
