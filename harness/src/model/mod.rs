//! Independent executable reference models.
pub mod lcg;
