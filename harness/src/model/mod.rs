//! Independent executable reference models.
pub mod ast;
pub mod lcg;
pub mod prog;
