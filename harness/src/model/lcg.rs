//! M-lcg: the documented linear congruential generator, in u128 arithmetic.
//! multiplier 1664525, increment 1013904223, modulus 2^33.

pub const MULT: u128 = 1664525;
pub const INC: u128 = 1013904223;
pub const MODULUS: u128 = 1u128 << 33;

/// next state from any 64-bit state/seed
pub fn next_state(state: u64) -> u64 {
    ((MULT * state as u128 + INC) % MODULUS) as u64
}

/// value in [0,1) for a state < 2^33 (exact in f64: 33-bit integer / power of two)
pub fn value_of(state: u64) -> f64 {
    state as f64 / 8589934592.0
}

#[derive(Clone, Debug)]
pub struct Lcg {
    pub state: u64,
}

impl Lcg {
    pub fn new(seed: u64) -> Self {
        Lcg { state: seed }
    }
    pub fn next(&mut self) -> f64 {
        self.state = next_state(self.state);
        value_of(self.state)
    }
    pub fn latest(&self) -> f64 {
        // before the first draw the "previous value" is the seed scaled the same way
        self.state as f64 / 8589934592.0
    }
}
