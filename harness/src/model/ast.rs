//! AST shared by the generators and the reference interpreter, with a printer to BASIC text.

#[derive(Clone, Copy, Debug, PartialEq, Eq, Hash)]
pub enum Un {
    Plus,
    Minus,
    Not,
}

#[derive(Clone, Copy, Debug, PartialEq, Eq, Hash)]
pub enum Bin {
    Pow,
    Mul,
    Div,
    Add,
    Sub,
    Eq,
    Ne,
    Lt,
    Le,
    Gt,
    Ge,
    And,
    Or,
}

pub const ALL_BIN: [Bin; 13] = [
    Bin::Pow, Bin::Mul, Bin::Div, Bin::Add, Bin::Sub, Bin::Eq, Bin::Ne, Bin::Lt, Bin::Le, Bin::Gt, Bin::Ge, Bin::And, Bin::Or,
];

impl Bin {
    /// precedence tier: higher binds tighter
    pub fn tier(self) -> u8 {
        match self {
            Bin::Or => 1,
            Bin::And => 2,
            Bin::Eq | Bin::Ne | Bin::Lt | Bin::Le | Bin::Gt | Bin::Ge => 3,
            Bin::Add | Bin::Sub => 4,
            Bin::Mul | Bin::Div => 5,
            Bin::Pow => 6,
        }
    }
    pub fn text(self) -> &'static str {
        match self {
            Bin::Pow => "^",
            Bin::Mul => "*",
            Bin::Div => "/",
            Bin::Add => "+",
            Bin::Sub => "-",
            Bin::Eq => "=",
            Bin::Ne => "<>",
            Bin::Lt => "<",
            Bin::Le => "<=",
            Bin::Gt => ">",
            Bin::Ge => ">=",
            Bin::And => "AND",
            Bin::Or => "OR",
        }
    }
}

impl Un {
    pub fn text(self) -> &'static str {
        match self {
            Un::Plus => "+",
            Un::Minus => "-",
            Un::Not => "NOT",
        }
    }
}

#[derive(Clone, Debug, PartialEq)]
pub enum Expr {
    /// numeric literal, kept as its source spelling (non-negative decimal)
    Num(String),
    Str(String),
    Var(String),
    Cell(String, Vec<Expr>),
    Un(Un, Box<Expr>),
    Bin(Bin, Box<Expr>, Box<Expr>),
    Abs(Box<Expr>),
    Int(Box<Expr>),
    Rnd(Box<Expr>),
    /// user-defined function call
    Call(String, Vec<Expr>),
    /// explicit (redundant) parentheses
    Paren(Box<Expr>),
}

pub fn num(v: i64) -> Expr {
    if v < 0 {
        Expr::Un(Un::Minus, Box::new(Expr::Num((-v).to_string())))
    } else {
        Expr::Num(v.to_string())
    }
}
pub fn var(n: &str) -> Expr {
    Expr::Var(n.to_string())
}
pub fn strlit(s: &str) -> Expr {
    Expr::Str(s.to_string())
}
pub fn bin(op: Bin, l: Expr, r: Expr) -> Expr {
    Expr::Bin(op, Box::new(l), Box::new(r))
}

impl Expr {
    /// 8 = atom, 7 = unary, else the binary tier
    fn level(&self) -> u8 {
        match self {
            Expr::Bin(op, _, _) => op.tier(),
            Expr::Un(_, _) => 7,
            _ => 8,
        }
    }

    /// Text with the minimal parentheses the grammar needs.
    pub fn text(&self) -> String {
        let mut s = String::new();
        self.write(&mut s, false);
        s
    }

    /// Text with every sub-expression wrapped in parentheses.
    pub fn text_redundant(&self) -> String {
        let mut s = String::new();
        self.write(&mut s, true);
        s
    }

    fn write_child(&self, out: &mut String, redundant: bool, need_parens: bool) {
        // an explicit Paren node already supplies parentheses
        let is_paren = matches!(self, Expr::Paren(_));
        if (need_parens || redundant) && !is_paren {
            out.push('(');
            self.write(out, redundant);
            out.push(')');
        } else {
            self.write(out, redundant);
        }
    }

    fn write(&self, out: &mut String, redundant: bool) {
        match self {
            Expr::Num(s) => out.push_str(s),
            Expr::Str(s) => {
                out.push('"');
                out.push_str(s);
                out.push('"');
            }
            Expr::Var(n) => out.push_str(n),
            Expr::Cell(n, idx) => {
                out.push_str(n);
                out.push('(');
                for (i, e) in idx.iter().enumerate() {
                    if i > 0 {
                        out.push(',');
                    }
                    e.write(out, redundant);
                }
                out.push(')');
            }
            Expr::Un(op, e) => {
                out.push_str(op.text());
                if *op == Un::Not {
                    out.push(' ');
                }
                e.write_child(out, redundant, e.level() < 8);
            }
            Expr::Bin(op, l, r) => {
                l.write_child(out, redundant, l.level() < op.tier());
                out.push(' ');
                out.push_str(op.text());
                out.push(' ');
                r.write_child(out, redundant, r.level() <= op.tier());
            }
            Expr::Abs(e) => {
                out.push_str("ABS(");
                e.write(out, redundant);
                out.push(')');
            }
            Expr::Int(e) => {
                out.push_str("INT(");
                e.write(out, redundant);
                out.push(')');
            }
            Expr::Rnd(e) => {
                out.push_str("RND(");
                e.write(out, redundant);
                out.push(')');
            }
            Expr::Call(n, args) => {
                out.push_str(n);
                out.push('(');
                for (i, e) in args.iter().enumerate() {
                    if i > 0 {
                        out.push(',');
                    }
                    e.write(out, redundant);
                }
                out.push(')');
            }
            Expr::Paren(e) => {
                out.push('(');
                e.write(out, redundant);
                out.push(')');
            }
        }
    }

    pub fn count_bin(&self) -> usize {
        match self {
            Expr::Bin(_, l, r) => 1 + l.count_bin() + r.count_bin(),
            Expr::Un(_, e) | Expr::Abs(e) | Expr::Int(e) | Expr::Rnd(e) | Expr::Paren(e) => e.count_bin(),
            Expr::Cell(_, v) | Expr::Call(_, v) => v.iter().map(|e| e.count_bin()).sum(),
            _ => 0,
        }
    }

    pub fn visit<'a>(&'a self, f: &mut dyn FnMut(&'a Expr)) {
        f(self);
        match self {
            Expr::Bin(_, l, r) => {
                l.visit(f);
                r.visit(f);
            }
            Expr::Un(_, e) | Expr::Abs(e) | Expr::Int(e) | Expr::Rnd(e) | Expr::Paren(e) => e.visit(f),
            Expr::Cell(_, v) | Expr::Call(_, v) => {
                for e in v {
                    e.visit(f)
                }
            }
            _ => {}
        }
    }
}

#[derive(Clone, Debug, PartialEq)]
pub struct LValue {
    pub name: String,
    pub index: Option<Vec<Expr>>,
}

impl LValue {
    pub fn scalar(n: &str) -> LValue {
        LValue { name: n.to_string(), index: None }
    }
    pub fn text(&self) -> String {
        match &self.index {
            None => self.name.clone(),
            Some(idx) => format!("{}({})", self.name, idx.iter().map(|e| e.text()).collect::<Vec<_>>().join(",")),
        }
    }
}

#[derive(Clone, Debug, PartialEq)]
pub enum PrintItem {
    Expr(Expr),
    Semi,
    Comma,
}

#[derive(Clone, Debug, PartialEq)]
pub enum DataItem {
    /// numeric item with its source spelling (e.g. "-2.50")
    Num(String),
    /// text item; quoted or bare
    Str(String, bool),
}

/// A branch of IF: a bare line number (implicit GOTO) or a statement.
#[derive(Clone, Debug, PartialEq)]
pub enum Branch {
    Line(u64),
    Stmt(Box<Stmt>),
}

#[derive(Clone, Debug, PartialEq)]
pub enum Stmt {
    Let { target: LValue, expr: Expr, keyword: bool },
    Print { items: Vec<PrintItem>, question_mark: bool },
    If { cond: Expr, then: Branch, els: Option<Branch> },
    Goto(u64),
    Gosub(u64),
    Return,
    For { var: String, from: Expr, to: Expr, step: Option<Expr> },
    Next(String),
    Read(Vec<LValue>),
    Data(Vec<DataItem>),
    Restore,
    Dim(String, Vec<Expr>),
    Def { name: String, params: Vec<String>, body: Expr },
    End,
    Stop,
    Input(LValue),
    Rem(String),
    /// nothing at all: only meaningful as the LAST statement of a line, where it stands for a trailing `:`
    Empty,
}

impl Stmt {
    pub fn kind(&self) -> &'static str {
        match self {
            Stmt::Empty => "EMPTY",
            Stmt::Let { .. } => "LET",
            Stmt::Print { .. } => "PRINT",
            Stmt::If { .. } => "IF",
            Stmt::Goto(_) => "GOTO",
            Stmt::Gosub(_) => "GOSUB",
            Stmt::Return => "RETURN",
            Stmt::For { .. } => "FOR",
            Stmt::Next(_) => "NEXT",
            Stmt::Read(_) => "READ",
            Stmt::Data(_) => "DATA",
            Stmt::Restore => "RESTORE",
            Stmt::Dim(_, _) => "DIM",
            Stmt::Def { .. } => "DEF",
            Stmt::End => "END",
            Stmt::Stop => "STOP",
            Stmt::Input(_) => "INPUT",
            Stmt::Rem(_) => "REM",
        }
    }

    pub fn text(&self) -> String {
        match self {
            Stmt::Empty => String::new(),
            Stmt::Let { target, expr, keyword } => {
                format!("{}{} = {}", if *keyword { "LET " } else { "" }, target.text(), expr.text())
            }
            Stmt::Print { items, question_mark } => {
                let mut s = String::from(if *question_mark { "?" } else { "PRINT" });
                for it in items {
                    match it {
                        PrintItem::Expr(e) => {
                            s.push(' ');
                            s.push_str(&e.text());
                        }
                        PrintItem::Semi => s.push(';'),
                        PrintItem::Comma => s.push(','),
                    }
                }
                s
            }
            Stmt::If { cond, then, els } => {
                let mut s = format!("IF {} THEN {}", cond.text(), then.text());
                if let Some(e) = els {
                    s.push_str(" ELSE ");
                    s.push_str(&e.text());
                }
                s
            }
            Stmt::Goto(n) => format!("GOTO {}", n),
            Stmt::Gosub(n) => format!("GOSUB {}", n),
            Stmt::Return => "RETURN".into(),
            Stmt::For { var, from, to, step } => {
                let mut s = format!("FOR {} = {} TO {}", var, from.text(), to.text());
                if let Some(st) = step {
                    s.push_str(" STEP ");
                    s.push_str(&st.text());
                }
                s
            }
            Stmt::Next(v) => format!("NEXT {}", v),
            Stmt::Read(ts) => format!("READ {}", ts.iter().map(|t| t.text()).collect::<Vec<_>>().join(", ")),
            Stmt::Data(items) => {
                let parts: Vec<String> = items
                    .iter()
                    .map(|i| match i {
                        DataItem::Num(s) => s.clone(),
                        DataItem::Str(s, true) => format!("\"{}\"", s),
                        DataItem::Str(s, false) => s.clone(),
                    })
                    .collect();
                format!("DATA {}", parts.join(", "))
            }
            Stmt::Restore => "RESTORE".into(),
            Stmt::Dim(n, idx) => format!("DIM {}({})", n, idx.iter().map(|e| e.text()).collect::<Vec<_>>().join(",")),
            Stmt::Def { name, params, body } => format!("DEF {}({}) = {}", name, params.join(","), body.text()),
            Stmt::End => "END".into(),
            Stmt::Stop => "STOP".into(),
            Stmt::Input(t) => format!("INPUT {}", t.text()),
            Stmt::Rem(s) => format!("REM{}", s),
        }
    }

    pub fn visit_exprs<'a>(&'a self, f: &mut dyn FnMut(&'a Expr)) {
        let mut lv = |t: &'a LValue, f: &mut dyn FnMut(&'a Expr)| {
            if let Some(idx) = &t.index {
                for e in idx {
                    e.visit(f);
                }
            }
        };
        match self {
            Stmt::Let { target, expr, .. } => {
                lv(target, f);
                expr.visit(f);
            }
            Stmt::Print { items, .. } => {
                for it in items {
                    if let PrintItem::Expr(e) = it {
                        e.visit(f);
                    }
                }
            }
            Stmt::If { cond, then, els } => {
                cond.visit(f);
                if let Branch::Stmt(s) = then {
                    s.visit_exprs(f);
                }
                if let Some(Branch::Stmt(s)) = els {
                    s.visit_exprs(f);
                }
            }
            Stmt::For { from, to, step, .. } => {
                from.visit(f);
                to.visit(f);
                if let Some(s) = step {
                    s.visit(f);
                }
            }
            Stmt::Read(ts) => {
                for t in ts {
                    lv(t, f);
                }
            }
            Stmt::Dim(_, idx) => {
                for e in idx {
                    e.visit(f);
                }
            }
            Stmt::Def { body, .. } => body.visit(f),
            Stmt::Input(t) => lv(t, f),
            _ => {}
        }
    }

    /// statement kinds nested in IF branches included
    pub fn visit_stmts<'a>(&'a self, f: &mut dyn FnMut(&'a Stmt)) {
        f(self);
        if let Stmt::If { then, els, .. } = self {
            if let Branch::Stmt(s) = then {
                s.visit_stmts(f);
            }
            if let Some(Branch::Stmt(s)) = els {
                s.visit_stmts(f);
            }
        }
    }
}

impl Branch {
    pub fn text(&self) -> String {
        match self {
            Branch::Line(n) => n.to_string(),
            Branch::Stmt(s) => s.text(),
        }
    }
}

#[derive(Clone, Debug, PartialEq)]
pub struct Line {
    pub number: u64,
    pub stmts: Vec<Stmt>,
}

impl Line {
    pub fn text(&self) -> String {
        format!("{} {}", self.number, self.body_text())
    }
    pub fn body_text(&self) -> String {
        self.stmts.iter().map(|s| s.text()).collect::<Vec<_>>().join(" : ")
    }
}

#[derive(Clone, Debug, PartialEq, Default)]
pub struct Program {
    /// ascending line numbers, unique
    pub lines: Vec<Line>,
}

impl Program {
    pub fn text_lines(&self) -> Vec<String> {
        self.lines.iter().map(|l| l.text()).collect()
    }
    pub fn text(&self) -> String {
        self.text_lines().join("\n")
    }
    pub fn visit_stmts<'a>(&'a self, f: &mut dyn FnMut(&'a Line, &'a Stmt)) {
        for l in &self.lines {
            for s in &l.stmts {
                s.visit_stmts(&mut |st| f(l, st));
            }
        }
    }
}
