//! M-prog: reference interpreter for G-prog programs, written from the documented semantics
//! (README, pinned tests, property statements — see DESIGN.md Appendix A), independent of the
//! repository's token-stream evaluator: it interprets the AST, never BASIC text.
//!
//! It is a small-step machine whose steps are *host turns*: one statement (or one `:` separator)
//! per turn, an IF together with the statement it selects counting as one.

use super::ast::*;
use super::lcg::Lcg;
use std::collections::HashMap;

#[derive(Clone, Debug, PartialEq)]
pub enum Val {
    N(f64),
    S(String),
}

impl Val {
    pub fn truthy(&self) -> bool {
        match self {
            Val::N(n) => *n != 0.0,
            Val::S(s) => !s.is_empty(),
        }
    }
    pub fn show(&self) -> String {
        match self {
            Val::N(n) => format!("{}", n),
            Val::S(s) => s.clone(),
        }
    }
    pub fn default_for(name: &str) -> Val {
        if name.ends_with('$') {
            Val::S(String::new())
        } else {
            Val::N(0.0)
        }
    }
    pub fn fits(&self, name: &str) -> bool {
        matches!((self, name.ends_with('$')), (Val::S(_), true) | (Val::N(_), false))
    }
}

/// Error kinds use the same stable names as `drive::err_kind`.
#[derive(Clone, Debug, PartialEq)]
pub struct Fail {
    pub kind: &'static str,
    pub line: Option<u64>,
}

pub const E_TYPE: &str = "TYPE MISMATCH";
pub const E_DIV0: &str = "DIVISION BY ZERO";
pub const E_DATATYPE: &str = "DATA TYPE MISMATCH";
pub const E_UNDEF: &str = "UNDEF'D STATEMENT";
pub const E_STACK: &str = "OUT OF MEMORY/STACK OVERFLOW";
pub const E_ARRAY: &str = "OUT OF MEMORY/ARRAY TOO LARGE";
pub const E_OUTOFDATA: &str = "OUT OF DATA";
pub const E_RETURN: &str = "RETURN WITHOUT GOSUB";
pub const E_NEXT: &str = "NEXT WITHOUT FOR";
pub const E_SUBSCRIPT: &str = "BAD SUBSCRIPT";
pub const E_QUANTITY: &str = "ILLEGAL QUANTITY";
pub const E_UNIMPL: &str = "UNIMPLEMENTED";
pub const E_REDIM: &str = "REDIM'D ARRAY";
pub const E_SYNTAX_EXPECTED: &str = "SYNTAX/EXPECTED TOKEN";

#[derive(Clone, Debug, PartialEq)]
pub enum Ev {
    Trace(u64),
    Print(String),
    /// ("variable" | "array", name, line)
    Warning(&'static str, String, Option<u64>),
    Break(Option<u64>),
    Reenter,
    ExtraIgnored,
}

#[derive(Clone, Debug, PartialEq)]
pub enum Status {
    Running,
    AwaitingInput,
    /// normal end (END, or ran off the last line)
    Ended,
    /// STOP executed
    Stopped(Option<u64>),
    Failed(Fail),
}

/// Position of the next thing to execute.
#[derive(Clone, Copy, Debug, PartialEq)]
pub struct Pos {
    pub line: usize,
    /// index into the line's item list: even = statement item/2, odd = the `:` after it
    pub item: usize,
    /// resume point captured *inside* an IF item, directly after its THEN statement
    /// (GOSUB return point, FOR resume point, INPUT re-entry). Per the documented IF semantics the
    /// ELSE part, and the rest of the line if there is an ELSE, is skipped from there.
    pub after_then: bool,
}

#[derive(Clone, Debug)]
struct Frame {
    ret: Option<Pos>,
    bindings: Vec<(String, Val)>,
}

#[derive(Clone, Debug)]
struct Loop {
    var: String,
    resume: Pos,
    limit: f64,
    step: f64,
}

#[derive(Clone, Debug)]
pub struct Arr {
    pub dims: Vec<usize>,
    pub cells: Vec<Val>,
}

#[derive(Clone, Debug)]
struct Func {
    params: Vec<String>,
    body: Expr,
    line: u64,
}

pub const STACK_LIMIT: usize = 32;
pub const MAX_CELLS: usize = 10000;

pub struct Machine<'p> {
    pub prog: &'p Program,
    pub pos: Option<Pos>,
    pub vars: HashMap<String, Val>,
    pub arrays: HashMap<String, Arr>,
    frames: Vec<Frame>,
    loops: Vec<Loop>,
    funcs: HashMap<String, Func>,
    data: Vec<(u64, DataItem)>,
    data_pos: usize,
    pub rng: Lcg,
    pub status: Status,
    /// line whose code is executing (switches to the DEF line inside a function body)
    cur_line: Option<u64>,
    events: Vec<Ev>,
    /// INPUT statement waiting for a reply: the lvalue
    pending_input: Option<(LValue, Pos)>,
    pub replies_consumed: u64,
    pub max_frames: usize,
    pub max_loops: usize,
    pub stmts_executed: u64,
    pub kinds_executed: std::collections::BTreeSet<&'static str>,
    pub lines_visited: Vec<u64>,
    /// set when execution resumed directly after a THEN statement that is followed by ELSE
    /// (return from `THEN GOSUB n ELSE`, loop-back to `THEN FOR .. ELSE`, reply to `THEN INPUT v ELSE`):
    /// the shape of known finding D5
    pub resumed_before_else: bool,
    /// the last step executed only a `:` separator
    pub last_step_was_separator: bool,
}

type R<T> = Result<T, Fail>;

impl<'p> Machine<'p> {
    pub fn new(prog: &'p Program, seed: u64) -> Self {
        let mut data = vec![];
        for l in &prog.lines {
            for s in &l.stmts {
                // DATA only appears as a top-level statement of a line
                if let Stmt::Data(items) = s {
                    for it in items {
                        data.push((l.number, it.clone()));
                    }
                }
            }
        }
        let pos = if prog.lines.is_empty() { None } else { Some(Pos { line: 0, item: 0, after_then: false }) };
        Machine {
            prog,
            pos,
            vars: HashMap::new(),
            arrays: HashMap::new(),
            frames: vec![],
            loops: vec![],
            funcs: HashMap::new(),
            data,
            data_pos: 0,
            rng: Lcg::new(seed),
            status: if pos.is_some() { Status::Running } else { Status::Ended },
            cur_line: None,
            events: vec![],
            pending_input: None,
            replies_consumed: 0,
            max_frames: 0,
            max_loops: 0,
            stmts_executed: 0,
            kinds_executed: Default::default(),
            lines_visited: vec![],
            resumed_before_else: false,
            last_step_was_separator: false,
        }
    }

    fn fail<T>(&self, kind: &'static str) -> R<T> {
        Err(Fail { kind, line: self.cur_line })
    }

    fn line_index(&self, number: u64) -> Option<usize> {
        self.prog.lines.binary_search_by(|l| l.number.cmp(&number)).ok()
    }

    fn items_len(&self, line: usize) -> usize {
        let stmts = &self.prog.lines[line].stmts;
        let n = stmts.len();
        if n == 0 {
            0
        } else if n >= 2 && matches!(stmts[n - 1], Stmt::Empty) {
            // a trailing `:`: the separator is there, nothing follows it
            2 * n - 2
        } else {
            2 * n - 1
        }
    }

    // ------------------------------------------------------------ expressions

    fn lookup(&mut self, name: &str) -> Val {
        for f in self.frames.iter().rev() {
            if let Some((_, v)) = f.bindings.iter().find(|(n, _)| n == name) {
                return v.clone();
            }
        }
        match self.vars.get(name) {
            Some(v) => v.clone(),
            None => {
                self.events.push(Ev::Warning("variable", name.to_string(), self.cur_line));
                Val::default_for(name)
            }
        }
    }

    fn eval_index(&mut self, idx: &[Expr]) -> R<Vec<usize>> {
        let mut out = vec![];
        for e in idx {
            let v = self.eval(e)?;
            let Val::N(n) = v else { return self.fail(E_TYPE) };
            let i = n as i64; // truncation toward zero, saturating; NaN -> 0
            if i < 0 {
                return self.fail(E_QUANTITY);
            }
            out.push(i as usize);
        }
        Ok(out)
    }

    fn make_array(&self, name: &str, max_indices: &[usize]) -> R<Arr> {
        if max_indices.is_empty() {
            return self.fail(E_SUBSCRIPT);
        }
        let mut total: u128 = 1;
        let mut dims = vec![];
        for m in max_indices {
            let d = *m as u128 + 1;
            total = total.saturating_mul(d);
            dims.push((*m).saturating_add(1));
        }
        if total > MAX_CELLS as u128 {
            return self.fail(E_ARRAY);
        }
        Ok(Arr { dims, cells: vec![Val::default_for(name); total as usize] })
    }

    fn ensure_array(&mut self, name: &str, arity: usize) -> R<()> {
        if !self.arrays.contains_key(name) {
            let arr = self.make_array(name, &vec![10; arity])?;
            self.arrays.insert(name.to_string(), arr);
        }
        Ok(())
    }

    fn linear(&self, arr: &Arr, idx: &[usize]) -> R<usize> {
        if idx.len() != arr.dims.len() {
            return self.fail(E_SUBSCRIPT);
        }
        let mut lin = 0;
        let mut stride = 1;
        for (i, d) in idx.iter().zip(&arr.dims) {
            if i >= d {
                return self.fail(E_SUBSCRIPT);
            }
            lin += i * stride;
            stride *= d;
        }
        Ok(lin)
    }

    fn cell_get(&mut self, name: &str, idx: &[usize]) -> R<Val> {
        if !self.arrays.contains_key(name) {
            self.events.push(Ev::Warning("array", name.to_string(), self.cur_line));
        }
        self.ensure_array(name, idx.len())?;
        let arr = self.arrays.get(name).unwrap();
        let lin = self.linear(arr, idx)?;
        Ok(arr.cells[lin].clone())
    }

    fn cell_set(&mut self, name: &str, idx: &[usize], v: Val) -> R<()> {
        if !self.arrays.contains_key(name) {
            self.events.push(Ev::Warning("array", name.to_string(), self.cur_line));
        }
        if !v.fits(name) {
            return self.fail(E_TYPE);
        }
        self.ensure_array(name, idx.len())?;
        let arr = self.arrays.get(name).unwrap();
        let lin = self.linear(arr, idx)?;
        self.arrays.get_mut(name).unwrap().cells[lin] = v;
        Ok(())
    }

    fn num(&self, v: Val) -> R<f64> {
        match v {
            Val::N(n) => Ok(n),
            Val::S(_) => self.fail(E_TYPE),
        }
    }

    pub fn eval(&mut self, e: &Expr) -> R<Val> {
        match e {
            Expr::Num(s) => Ok(Val::N(s.parse::<f64>().unwrap_or(f64::NAN))),
            Expr::Str(s) => Ok(Val::S(s.clone())),
            Expr::Var(n) => Ok(self.lookup(n)),
            Expr::Paren(e) => self.eval(e),
            Expr::Cell(n, idx) => {
                let i = self.eval_index(idx)?;
                self.cell_get(n, &i)
            }
            Expr::Un(op, e) => {
                let v = self.eval(e)?;
                match op {
                    // a unary plus is generated over numeric operands only (what it does to a string
                    // is not fixed by any document; see DESIGN.md D8b)
                    Un::Plus => Ok(v),
                    Un::Minus => Ok(Val::N(-self.num(v)?)),
                    Un::Not => Ok(Val::N(if v.truthy() { 0.0 } else { 1.0 })),
                }
            }
            Expr::Bin(op, l, r) => {
                let a = self.eval(l)?;
                let b = self.eval(r)?;
                self.binop(*op, a, b)
            }
            Expr::Abs(e) => {
                let v = self.eval(e)?;
                Ok(Val::N(self.num(v)?.abs()))
            }
            Expr::Int(e) => {
                let v = self.eval(e)?;
                Ok(Val::N(self.num(v)?.floor()))
            }
            Expr::Rnd(e) => {
                let v = self.eval(e)?;
                let x = self.num(v)?;
                if x < 0.0 {
                    self.fail(E_UNIMPL)
                } else if x == 0.0 {
                    Ok(Val::N(self.rng.latest()))
                } else {
                    Ok(Val::N(self.rng.next()))
                }
            }
            Expr::Call(name, args) => self.call(name, args),
        }
    }

    fn binop(&self, op: Bin, a: Val, b: Val) -> R<Val> {
        let t = |c: bool| Ok(Val::N(if c { 1.0 } else { 0.0 }));
        match op {
            Bin::And => t(a.truthy() && b.truthy()),
            Bin::Or => t(a.truthy() || b.truthy()),
            Bin::Eq | Bin::Ne | Bin::Lt | Bin::Le | Bin::Gt | Bin::Ge => match (&a, &b) {
                (Val::N(x), Val::N(y)) => t(cmp(op, x.partial_cmp(y))),
                (Val::S(x), Val::S(y)) => t(cmp(op, Some(x.as_bytes().cmp(y.as_bytes())))),
                _ => self.fail(E_TYPE),
            },
            Bin::Pow | Bin::Mul | Bin::Div | Bin::Add | Bin::Sub => match (&a, &b) {
                (Val::N(x), Val::N(y)) => match op {
                    Bin::Pow => Ok(Val::N(x.powf(*y))),
                    Bin::Mul => Ok(Val::N(x * y)),
                    Bin::Div => {
                        if *y == 0.0 {
                            self.fail(E_DIV0)
                        } else {
                            Ok(Val::N(x / y))
                        }
                    }
                    Bin::Add => Ok(Val::N(x + y)),
                    _ => Ok(Val::N(x - y)),
                },
                _ => self.fail(E_TYPE),
            },
        }
    }

    fn call(&mut self, name: &str, args: &[Expr]) -> R<Val> {
        let Some(f) = self.funcs.get(name).cloned() else {
            // not (yet) defined: the name denotes an array
            let i = self.eval_index(args)?;
            return self.cell_get(name, &i);
        };
        let mut bindings = vec![];
        for (k, p) in f.params.iter().enumerate() {
            let Some(a) = args.get(k) else {
                // fewer arguments than parameters: the call's `)` arrives where `,` is expected
                return self.fail(E_SYNTAX_EXPECTED);
            };
            let v = self.eval(a)?;
            if !v.fits(p) {
                return self.fail(E_TYPE);
            }
            // later parameter of the same name overrides the earlier one
            if let Some(slot) = bindings.iter_mut().find(|(n, _): &&mut (String, Val)| n == p) {
                slot.1 = v;
            } else {
                bindings.push((p.clone(), v));
            }
        }
        if args.len() > f.params.len() {
            return self.fail(E_SYNTAX_EXPECTED);
        }
        if self.frames.len() >= STACK_LIMIT {
            return self.fail(E_STACK);
        }
        self.frames.push(Frame { ret: None, bindings });
        self.max_frames = self.max_frames.max(self.frames.len());
        let saved = self.cur_line;
        self.cur_line = Some(f.line);
        let v = self.eval(&f.body)?; // on failure the error carries the DEF line
        self.cur_line = saved;
        self.frames.pop();
        Ok(v)
    }

    // ------------------------------------------------------------ statements

    fn assign(&mut self, target: &LValue, idx: Option<Vec<usize>>, v: Val) -> R<()> {
        match idx {
            Some(i) => self.cell_set(&target.name, &i, v),
            None => {
                if !v.fits(&target.name) {
                    return self.fail(E_TYPE);
                }
                self.vars.insert(target.name.clone(), v);
                Ok(())
            }
        }
    }

    fn lvalue_index(&mut self, t: &LValue) -> R<Option<Vec<usize>>> {
        match &t.index {
            None => Ok(None),
            Some(idx) => Ok(Some(self.eval_index(idx)?)),
        }
    }

    fn next_line_pos(&self, line: usize) -> Option<Pos> {
        if line + 1 < self.prog.lines.len() {
            Some(Pos { line: line + 1, item: 0, after_then: false })
        } else {
            None
        }
    }

    fn goto(&mut self, number: u64) -> R<()> {
        match self.line_index(number) {
            Some(i) => {
                self.pos = Some(Pos { line: i, item: 0, after_then: false });
                Ok(())
            }
            None => self.fail(E_UNDEF),
        }
    }

    /// Execute one statement. `here` is the position of the enclosing item; `seq` the position
    /// that follows this statement sequentially.
    fn exec(&mut self, s: &Stmt, here: Pos, seq: Pos, nested_with_else: bool) -> R<()> {
        if let Some(n) = self.cur_line {
            self.events.push(Ev::Trace(n));
        }
        self.stmts_executed += 1;
        self.kinds_executed.insert(s.kind());
        match s {
            Stmt::Empty => Ok(()),
            Stmt::Rem(_) => {
                // the rest of the line is part of the remark token
                Ok(())
            }
            Stmt::Restore => {
                self.data_pos = 0;
                Ok(())
            }
            Stmt::Data(_) => Ok(()),
            Stmt::End => {
                self.pos = None;
                self.status = Status::Ended;
                Ok(())
            }
            Stmt::Stop => {
                self.events.push(Ev::Break(self.cur_line));
                self.pos = None;
                self.status = Status::Stopped(self.cur_line);
                Ok(())
            }
            Stmt::Let { target, expr, .. } => {
                let idx = self.lvalue_index(target)?;
                let v = self.eval(expr)?;
                self.assign(target, idx, v)
            }
            Stmt::Print { items, .. } => {
                let mut out = String::new();
                let mut trailing_semi = false;
                for it in items {
                    match it {
                        PrintItem::Semi => trailing_semi = true,
                        PrintItem::Comma => {
                            trailing_semi = false;
                            out.push('\t');
                        }
                        PrintItem::Expr(e) => {
                            trailing_semi = false;
                            let v = self.eval(e)?;
                            out.push_str(&v.show());
                        }
                    }
                }
                if !trailing_semi {
                    out.push('\n');
                }
                self.events.push(Ev::Print(out));
                Ok(())
            }
            Stmt::Goto(n) => self.goto(*n),
            Stmt::Gosub(n) => {
                if self.frames.len() >= STACK_LIMIT {
                    return self.fail(E_STACK);
                }
                let ret = if nested_with_else { Pos { after_then: true, ..here } } else { seq };
                self.goto(*n)?;
                self.frames.push(Frame { ret: Some(ret), bindings: vec![] });
                self.max_frames = self.max_frames.max(self.frames.len());
                Ok(())
            }
            Stmt::Return => match self.frames.pop() {
                Some(f) => {
                    self.pos = f.ret;
                    if self.pos.is_none() {
                        self.status = Status::Ended;
                    }
                    Ok(())
                }
                None => self.fail(E_RETURN),
            },
            Stmt::For { var, from, to, step } => {
                let f = self.eval(from)?;
                let f = self.num(f)?;
                let t = self.eval(to)?;
                let t = self.num(t)?;
                let st = match step {
                    Some(e) => {
                        let v = self.eval(e)?;
                        self.num(v)?
                    }
                    None => 1.0,
                };
                if let Some(i) = self.loops.iter().rposition(|l| &l.var == var) {
                    self.loops.truncate(i);
                }
                if self.loops.len() >= STACK_LIMIT {
                    return self.fail(E_STACK);
                }
                let resume = if nested_with_else { Pos { after_then: true, ..here } } else { seq };
                self.loops.push(Loop { var: var.clone(), resume, limit: t, step: st });
                self.max_loops = self.max_loops.max(self.loops.len());
                if var.ends_with('$') {
                    return self.fail(E_TYPE);
                }
                self.vars.insert(var.clone(), Val::N(f));
                Ok(())
            }
            Stmt::Next(var) => {
                // reads the global directly (no frame lookup, no warning)
                let cur = self.vars.get(var).cloned().unwrap_or_else(|| Val::default_for(var));
                let cur = self.num(cur)?;
                let Some(i) = self.loops.iter().rposition(|l| &l.var == var) else {
                    return self.fail(E_NEXT);
                };
                let lp = self.loops[i].clone();
                self.loops.truncate(i);
                let new = cur + lp.step;
                let cont = if lp.step >= 0.0 { new <= lp.limit } else { new >= lp.limit };
                if cont {
                    self.pos = Some(lp.resume);
                    self.loops.push(lp);
                }
                self.vars.insert(var.clone(), Val::N(new));
                Ok(())
            }
            Stmt::Read(targets) => {
                for t in targets {
                    let idx = self.lvalue_index(t)?;
                    let Some((dline, item)) = self.data.get(self.data_pos).cloned() else {
                        return self.fail(E_OUTOFDATA);
                    };
                    self.data_pos += 1;
                    let v = match (&item, t.name.ends_with('$')) {
                        (DataItem::Str(s, _), true) => Val::S(s.clone()),
                        (DataItem::Num(s), true) => Val::S(format!("{}", s.parse::<f64>().unwrap_or(f64::NAN))),
                        (DataItem::Num(s), false) => Val::N(s.parse::<f64>().unwrap_or(f64::NAN)),
                        (DataItem::Str(_, _), false) => {
                            return Err(Fail { kind: E_DATATYPE, line: Some(dline) });
                        }
                    };
                    self.assign(t, idx, v)?;
                }
                Ok(())
            }
            Stmt::Dim(name, idx) => {
                let i = self.eval_index(idx)?;
                if self.arrays.contains_key(name) {
                    return self.fail(E_REDIM);
                }
                let arr = self.make_array(name, &i)?;
                self.arrays.insert(name.clone(), arr);
                Ok(())
            }
            Stmt::Def { name, params, body } => {
                let line = self.cur_line.unwrap_or(0);
                self.funcs.insert(name.clone(), Func { params: params.clone(), body: body.clone(), line });
                // the definition runs up to and including the `:` that ends it: the separator is not a
                // turn of its own after DEF (turn accounting only; observed on the pinned tree, DESIGN.md §9)
                if self.pos == Some(seq) {
                    self.pos = Some(Pos { line: here.line, item: here.item + 2, after_then: false });
                }
                Ok(())
            }
            Stmt::Input(t) => {
                // first arrival: nothing is evaluated, the interpreter waits
                let at = if nested_with_else { Pos { after_then: true, ..here } } else { seq };
                self.pending_input = Some((t.clone(), at));
                self.status = Status::AwaitingInput;
                Ok(())
            }
            Stmt::If { cond, then, els } => {
                let c = self.eval(cond)?;
                let has_else = els.is_some();
                if c.truthy() {
                    let before = self.pos;
                    self.branch(then, here, seq, has_else || nested_with_else)?;
                    // if control stayed in sequence and an ELSE follows, the rest of the line is skipped
                    if has_else && self.pos == before && self.status == Status::Running {
                        self.pos = self.next_line_pos(here.line);
                        if self.pos.is_none() {
                            self.status = Status::Ended;
                        }
                    }
                    Ok(())
                } else {
                    match els {
                        Some(b) => self.branch(b, here, seq, nested_with_else),
                        None => {
                            // no ELSE: the rest of the line is skipped
                            self.pos = self.next_line_pos(here.line);
                            if self.pos.is_none() {
                                self.status = Status::Ended;
                            }
                            Ok(())
                        }
                    }
                }
            }
        }
    }

    fn branch(&mut self, b: &Branch, here: Pos, seq: Pos, nested_with_else: bool) -> R<()> {
        match b {
            Branch::Line(n) => self.goto(*n),
            Branch::Stmt(s) => self.exec(s, here, seq, nested_with_else),
        }
    }

    /// One host turn. Returns the events of this turn.
    pub fn step(&mut self) -> Vec<Ev> {
        self.events.clear();
        if self.status != Status::Running {
            return vec![];
        }
        let Some(pos) = self.pos else {
            self.status = Status::Ended;
            return vec![];
        };
        let line = &self.prog.lines[pos.line];
        self.cur_line = Some(line.number);
        if self.lines_visited.last() != Some(&line.number) {
            self.lines_visited.push(line.number);
        }
        let n_items = self.items_len(pos.line);
        if pos.after_then {
            self.resumed_before_else = true;
            // resuming directly after a THEN statement: skip the ELSE part; if the IF has an ELSE the rest
            // of the line goes with it, otherwise continue after the IF item.
            let has_else = self.if_item_has_else(pos);
            let next = if has_else {
                self.next_line_pos(pos.line)
            } else {
                self.advance(Pos { line: pos.line, item: pos.item + 1, after_then: false })
            };
            self.pos = next;
            if self.pos.is_none() {
                self.status = Status::Ended;
            }
            // this consumed no turn in the model of the documented semantics; execute the next thing
            return self.step_inner_after_resume();
        }
        debug_assert!(pos.item < n_items);
        let seq_raw = Pos { line: pos.line, item: pos.item + 1, after_then: false };
        // sequential successor is provisionally installed; statements overwrite self.pos to transfer
        self.pos = Some(seq_raw);
        self.last_step_was_separator = pos.item % 2 == 1;
        let result = if pos.item % 2 == 1 {
            // the `:` separator is a statement of its own
            self.events.push(Ev::Trace(line.number));
            Ok(())
        } else {
            let stmt = &line.stmts[pos.item / 2];
            self.exec(stmt, pos, seq_raw, false)
        };
        match result {
            Err(f) => {
                self.status = Status::Failed(f);
                self.pos = None;
            }
            Ok(()) => {
                if self.status == Status::Running {
                    // a line that is exhausted hands over to the next line within the same turn
                    if let Some(p) = self.pos {
                        if !p.after_then {
                            self.pos = self.advance(p);
                        }
                    }
                    if self.pos.is_none() {
                        self.status = Status::Ended;
                    }
                }
            }
        }
        std::mem::take(&mut self.events)
    }

    fn step_inner_after_resume(&mut self) -> Vec<Ev> {
        if self.status != Status::Running {
            return vec![];
        }
        self.step()
    }

    fn if_item_has_else(&self, pos: Pos) -> bool {
        let line = &self.prog.lines[pos.line];
        fn has_else(s: &Stmt) -> bool {
            match s {
                Stmt::If { els: Some(_), .. } => true,
                Stmt::If { then: Branch::Stmt(t), els: None, .. } => has_else(t),
                _ => false,
            }
        }
        line.stmts.get(pos.item / 2).map(has_else).unwrap_or(false)
    }

    /// normalise a position: past the end of its line => start of the next line
    fn advance(&self, p: Pos) -> Option<Pos> {
        if p.item >= self.items_len(p.line) {
            self.next_line_pos(p.line)
        } else {
            Some(p)
        }
    }

    /// Supply a reply to a pending INPUT (one host turn: the INPUT statement is re-executed).
    pub fn reply(&mut self, text: &str) -> Vec<Ev> {
        self.events.clear();
        let Some((target, after)) = self.pending_input.clone() else { return vec![] };
        if self.status != Status::AwaitingInput {
            return vec![];
        }
        self.status = Status::Running;
        if let Some(n) = self.cur_line {
            self.events.push(Ev::Trace(n));
        }
        let parsed = parse_reply(text);
        let r: R<()> = (|| {
            let idx = self.lvalue_index(&target)?;
            let first = parsed.items.first().cloned().unwrap_or(ReplyItem::Text(String::new()));
            let v = match (&first, target.name.ends_with('$')) {
                (ReplyItem::Text(s), true) => Val::S(s.clone()),
                (ReplyItem::Number(n), true) => Val::S(format!("{}", n)),
                (ReplyItem::Number(n), false) => Val::N(*n),
                (ReplyItem::Text(_), false) => {
                    self.events.push(Ev::Reenter);
                    self.status = Status::AwaitingInput;
                    return Ok(());
                }
            };
            self.assign(&target, idx, v)?;
            self.replies_consumed += 1;
            if parsed.items.len() > 1 || parsed.leftover {
                self.events.push(Ev::ExtraIgnored);
            }
            self.pending_input = None;
            if after.after_then {
                self.resumed_before_else = true;
            }
            self.pos = if after.after_then { Some(after) } else { self.advance(after) };
            if self.pos.is_none() {
                self.status = Status::Ended;
            }
            Ok(())
        })();
        if let Err(f) = r {
            self.status = Status::Failed(f);
            self.pos = None;
        }
        std::mem::take(&mut self.events)
    }

    pub fn frames_len(&self) -> usize {
        self.frames.len()
    }
    pub fn loops_len(&self) -> usize {
        self.loops.len()
    }
}

fn cmp(op: Bin, ord: Option<std::cmp::Ordering>) -> bool {
    use std::cmp::Ordering::*;
    match (op, ord) {
        (Bin::Ne, None) => true,
        (_, None) => false,
        (Bin::Eq, Some(o)) => o == Equal,
        (Bin::Ne, Some(o)) => o != Equal,
        (Bin::Lt, Some(o)) => o == Less,
        (Bin::Le, Some(o)) => o != Greater,
        (Bin::Gt, Some(o)) => o == Greater,
        (Bin::Ge, Some(o)) => o != Less,
        _ => false,
    }
}

// ---------------------------------------------------------------- reply model (C08)

#[derive(Clone, Debug, PartialEq)]
pub enum ReplyItem {
    Number(f64),
    Text(String),
}

pub struct ParsedReply {
    pub items: Vec<ReplyItem>,
    /// text remains after a `:` that ended the item list
    pub leftover: bool,
}

/// Independent model of reply parsing, valid inside the unambiguous zone (DESIGN.md C08):
/// items are separated by commas outside quotes; a colon outside quotes ends the list; a quoted item
/// is taken verbatim; an unquoted item is trimmed and is a number iff it is a plain signed decimal.
pub fn parse_reply(text: &str) -> ParsedReply {
    fn flush(cur: &mut String, items: &mut Vec<ReplyItem>) {
        let t = cur.trim();
        if !t.is_empty() {
            items.push(match plain_decimal(t) {
                Some(n) => ReplyItem::Number(n),
                None => ReplyItem::Text(t.to_string()),
            });
        }
        cur.clear();
    }
    let mut items = vec![];
    let mut cur = String::new();
    let mut in_quotes = false;
    let mut leftover = false;
    for c in text.chars() {
        if in_quotes {
            if c == '"' {
                items.push(ReplyItem::Text(std::mem::take(&mut cur)));
                in_quotes = false;
            } else {
                cur.push(c);
            }
            continue;
        }
        match c {
            ':' => {
                // everything from the colon on is surplus
                leftover = true;
                break;
            }
            ',' => flush(&mut cur, &mut items),
            '"' if cur.trim().is_empty() => {
                cur.clear();
                in_quotes = true;
            }
            _ => cur.push(c),
        }
    }
    if in_quotes {
        // unterminated quote: the text so far is the item
        if !cur.is_empty() || items.is_empty() {
            items.push(ReplyItem::Text(cur.clone()));
        }
    } else {
        flush(&mut cur, &mut items);
    }
    if items.is_empty() {
        items.push(ReplyItem::Text(String::new()));
    }
    ParsedReply { items, leftover }
}

/// [+-]digits[.digits] | [+-].digits
pub fn plain_decimal(t: &str) -> Option<f64> {
    let body = t.strip_prefix('-').or_else(|| t.strip_prefix('+')).unwrap_or(t);
    if body.is_empty() {
        return None;
    }
    let mut dots = 0;
    let mut digits = 0;
    for c in body.chars() {
        if c == '.' {
            dots += 1;
        } else if c.is_ascii_digit() {
            digits += 1;
        } else {
            return None;
        }
    }
    if dots > 1 || digits == 0 {
        return None;
    }
    t.parse::<f64>().ok()
}
