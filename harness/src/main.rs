//! abv — runtime-monitoring harness for toolness/abasic (properties C01–C20).
//!
//!   abv run <ID> <quick|thorough>      parent: shard, merge, write evidence, print verdict
//!   abv worker <ID> <tier> <seed> <workload> <profile> <shard> <nshards> <cases> <outfile>
//!   abv replay <file>
//!   abv probe ...                      child-process probes (native stack depth)

mod cmp;
mod drive;
mod exec;
mod gen;
mod model;
mod props;
mod report;
mod runner;
mod util;

use runner::Tier;
use std::path::Path;

fn main() {
    let args: Vec<String> = std::env::args().skip(1).collect();
    let checks = props::all();
    let code = match args.first().map(|s| s.as_str()) {
        Some("run") if args.len() >= 3 => {
            let Some(check) = checks.iter().find(|c| c.id == args[1]) else {
                eprintln!("unknown property {}", args[1]);
                std::process::exit(2);
            };
            let Some(tier) = Tier::parse(&args[2]) else {
                eprintln!("unknown tier {}", args[2]);
                std::process::exit(2);
            };
            runner::parent_main(check, tier)
        }
        Some("worker") if args.len() >= 10 => {
            let Some(check) = checks.iter().find(|c| c.id == args[1]) else {
                std::process::exit(2);
            };
            runner::worker_main(check, &args[2..])
        }
        Some("replay") if args.len() >= 2 => runner::replay_main(&checks, Path::new(&args[1])),
        Some("probe") => props::probe_main(&args[1..]),
        Some("list") => {
            for c in &checks {
                println!("{}", c.id);
            }
            0
        }
        _ => {
            eprintln!("usage: abv run <ID> <quick|thorough> | abv replay <file> | abv list");
            2
        }
    };
    std::process::exit(code);
}
