// Executes the REAL page script (abasic-web/ts/main.ts, types stripped) under node against the REAL
// JsInterpreter, which lives in the parent process (abv): every adapter method is a synchronous RPC over
// this process's stdin/stdout. The DOM layer (ui.ts) is replaced by a small mock.
//
// usage: node page_driver.js <scenarios.json> <path to main.ts>
"use strict";
const fs = require("fs");

function rpc(call, args) {
  fs.writeSync(1, JSON.stringify({ call, args: args || [] }) + "\n");
  // blocking read of one line from fd 0
  let line = "";
  const buf = Buffer.alloc(1 << 16);
  for (;;) {
    const nl = rpc.pending.indexOf("\n");
    if (nl >= 0) {
      line = rpc.pending.slice(0, nl);
      rpc.pending = rpc.pending.slice(nl + 1);
      break;
    }
    let n = 0;
    try {
      n = fs.readSync(0, buf, 0, buf.length, null);
    } catch (e) {
      if (e.code === "EAGAIN") continue;
      throw e;
    }
    if (n === 0) throw new Error("bridge closed");
    rpc.pending += buf.toString("utf8", 0, n);
  }
  const reply = JSON.parse(line);
  if (reply.trap !== undefined) {
    const err = new Error("wasm trap: " + reply.trap);
    err.isTrap = true;
    throw err;
  }
  return reply.ok;
}
rpc.pending = "";

// ---- type stripping (the TypeScript subset main.ts uses) -------------------------------------------
function stripTypes(src) {
  let out = [];
  const modules = [];
  for (let line of src.split("\n")) {
    out.push(line);
  }
  let code = out.join("\n");
  // imports -> bindings from stub modules
  code = code.replace(/import\s*\{([^}]*)\}\s*from\s*"([^"]+)";/g, (m, names, mod) => {
    const binds = names.split(",").map((s) => s.trim()).filter(Boolean).map((s) => s.replace(/^default\s+as\s+/, "default: ").replace(/\s+as\s+/, ": "));
    return `const { ${binds.join(", ")} } = __modules[${JSON.stringify(mod)}];`;
  });
  code = code.replace(/import\s*\*\s*as\s*(\w+)\s*from\s*"([^"]+)";/g, (m, name, mod) => `const ${name} = __modules[${JSON.stringify(mod)}];`);
  // constructor parameter properties
  code = code.replace(/constructor\s*\(([^)]*)\)\s*\{/g, (m, params) => {
    const assigns = [];
    const clean = params.split(",").map((p) => p.trim()).filter(Boolean).map((p) => {
      const isProp = /^(private|public|protected|readonly)\b/.test(p);
      const name = p.replace(/^((private|public|protected|readonly)\s+)+/, "").split(":")[0].replace("?", "").trim();
      if (isProp) assigns.push(`this.${name} = ${name};`);
      return name;
    });
    return `constructor(${clean.join(", ")}) { ${assigns.join(" ")}`;
  });
  const lines = code.split("\n").map((line) => {
    // member modifiers
    line = line.replace(/^(\s*)(?:(?:private|public|protected|readonly)\s+)+/, "$1");
    const isDecl = /^\s*(?:export\s+)?(?:async\s+)?(?:function\s+\w+|(?!if\b|for\b|while\b|switch\b|catch\b|return\b|else\b)\w+)\s*\(.*\)\s*(?::\s*[^{=]+)?\{\s*$/.test(line) || /^\s*(?:const|let)?\s*\w+\s*=\s*(?:async\s*)?\(.*\)\s*(?::\s*[^=]+)?=>\s*\{\s*$/.test(line);
    if (isDecl) {
      // return type
      line = line.replace(/\)\s*:\s*[^{=]+(\{\s*)$/, ") $1").replace(/\)\s*:\s*[^=]+(=>\s*\{\s*)$/, ") $1");
      // parameter annotations
      line = line.replace(/\(([^()]*)\)/, (m, params) => "(" + params.split(",").map((p) => p.replace(/\??\s*:\s*[^=,]+/, "")).join(",") + ")");
    }
    return line;
  });
  return lines.join("\n");
}

function runScenario(mainSrc, sc) {
  const log = { exception: null, trap: null, events_applied: 0 };
  // ---- mocks ----
  const timers = [];
  const ui = {
    inputValue: "", inputDisabled: false, submitCb: null, keydownCb: null,
    print() {}, printSpanWithClass() {}, clearScreen() {}, setPrompt() {}, commitCurrentPromptToOutput() {},
    getInput() { return ui.inputValue; }, clearInput() { ui.inputValue = ""; },
    clearPromptAndDisableInput() { ui.inputValue = ""; ui.inputDisabled = true; },
    onInputKeyDown(cb) { ui.keydownCb = cb; }, onSubmitInput(cb) { ui.submitCb = cb; },
  };
  class JsInterpreter {
    static new() { rpc("new"); return new JsInterpreter(); }
    randomize(seed) { return rpc("randomize", [String(seed)]); }
    provide_input(s) { return rpc("provide_input", [String(s)]); }
    take_latest_output() {
      return rpc("take_latest_output").map(([t, text]) => ({ output_type: t, into_string() { return text; } }));
    }
    take_latest_error() { const e = rpc("take_latest_error"); return e === null ? undefined : e; }
    break_at_current_location() { return rpc("break_at_current_location"); }
    start_evaluating(line) { return rpc("start_evaluating", [String(line)]); }
    continue_evaluating() { return rpc("continue_evaluating"); }
    get_state() { return rpc("get_state"); }
  }
  const enumOf = (names) => { const o = {}; names.forEach((n, i) => { o[n] = i; o[i] = n; }); return o; };
  const __modules = {
    "../pkg/abasic_web.js": {
      default: () => Promise.resolve({}),
      JsInterpreter,
      JsInterpreterState: enumOf(["Idle", "Running", "AwaitingInput", "Errored"]),
      JsInterpreterOutputType: enumOf(["Print", "Break", "Warning", "Trace", "ExtraIgnored", "Reenter"]),
    },
    "./ui.js": ui,
    "./util.js": { unreachable(arg) { throw new Error(`Assertion failure, unreachable(${arg}) was called!`); } },
  };
  const windowMock = {
    setTimeout(fn) { timers.push(fn); return timers.length; },
    location: { search: sc.program !== null ? "?p=prog" : "" },
  };
  // the download of the program file stays pending until the driver releases it, so that page events can be
  // delivered while it is in flight
  let releaseFetch = () => {};
  const fetchGate = new Promise((res) => { releaseFetch = res; });
  const fetchMock = async () => { await fetchGate; return { ok: true, status: 200, text: async () => sc.program }; };
  const DateMock = { now: () => Number(BigInt(sc.seed) % 9007199254740991n) };
  // the page converts Date.now() with BigInt(); hand the full 64-bit seed through a BigInt shim
  const BigIntShim = (v) => (v === DateMock.__now ? BigInt(sc.seed) : BigInt(v));
  DateMock.now = () => { DateMock.__now = Number(BigInt(sc.seed) % 9007199254740991n); return DateMock.__now; };
  let fn;
  try {
    fn = new Function("__modules", "window", "fetch", "Date", "BigInt", "console", "URLSearchParams", mainSrc);
  } catch (e) {
    return { unsupported: "cannot parse type-stripped main.ts: " + e.message };
  }
  const guard = (f) => {
    try { f(); } catch (e) {
      if (e.isTrap) log.trap = e.message; else log.exception = String(e && e.message ? e.message : e);
    }
  };
  guard(() => fn(__modules, windowMock, fetchMock, DateMock, BigIntShim, { warn() {}, log() {}, error() {} }, URLSearchParams));
  return { log, timers, ui, guard, releaseFetch };
}

async function main() {
  const scenarios = JSON.parse(fs.readFileSync(process.argv[2], "utf8"));
  const mainTs = fs.readFileSync(process.argv[3], "utf8");
  const mainSrc = stripTypes(mainTs);
  for (const sc of scenarios) {
    rpc("__begin", [sc.id]);
    const r = runScenario(mainSrc, sc);
    if (r.unsupported) { rpc("__end", [{ unsupported: r.unsupported }]); continue; }
    const { log, timers, ui, guard, releaseFetch } = r;
    // let wasm().then(async ...) run: module init, fetch, loadAndRunSourceCode, start(), handler registration
    let caught = null;
    const onRejection = (e) => { caught = e; };
    process.once("unhandledRejection", onRejection);
    for (let i = 0; i < 4; i++) await new Promise((res) => setImmediate(res));
    // events that arrive while the program file is still being downloaded (only handlers that are registered by
    // then can see them; a page that registers none yet ignores them)
    for (const ev of (sc.early || [])) {
      if (log.trap || log.exception) break;
      if (ev.t === "submit") {
        if (!ui.inputDisabled && ui.submitCb) { ui.inputValue = ev.text; guard(() => ui.submitCb()); log.early_delivered = (log.early_delivered || 0) + 1; }
      } else if (ev.t === "tick") {
        const f = timers.shift();
        if (f) guard(f);
      }
    }
    releaseFetch();
    for (let i = 0; i < 8; i++) await new Promise((res) => setImmediate(res));
    process.removeListener("unhandledRejection", onRejection);
    if (caught) { if (caught.isTrap) log.trap = caught.message; else log.exception = String(caught && caught.message ? caught.message : caught); }
    for (const ev of sc.events) {
      if (log.trap || log.exception) break;
      if (ev.t === "tick") {
        const f = timers.shift();
        if (f) guard(f);
      } else if (ev.t === "submit") {
        if (!ui.inputDisabled && ui.submitCb) { ui.inputValue = ev.text; guard(() => ui.submitCb()); }
      } else if (ev.t === "break") {
        if (!ui.inputDisabled && ui.keydownCb) guard(() => ui.keydownCb({ ctrlKey: true, key: "c", preventDefault() {} }, { selectionStart: 0, selectionEnd: 0 }));
      }
      log.events_applied++;
    }
    rpc("__end", [log]);
  }
  fs.writeSync(1, JSON.stringify({ call: "__done", args: [] }) + "\n");
}
main().catch((e) => { fs.writeSync(2, "driver failure: " + (e && e.stack ? e.stack : e) + "\n"); process.exit(3); });
