#!/usr/bin/env python3
"""Validate MANIFEST.json and every evidence file against the given schemas (tooling venv has jsonschema)."""
import json, sys, glob
import jsonschema
m = json.load(open('/verif/MANIFEST.json')); s = json.load(open('/root/.vp/MANIFEST.schema.json'))
jsonschema.validate(m, s); print("manifest valid; claimed", len(m["checks"]), "n/a", len(m.get("not_applicable", [])))
es = json.load(open('/root/.vp/EVIDENCE.schema.json'))
for c in m["checks"]:
    p = c["evidence_file"]
    try:
        e = json.load(open(p)); jsonschema.validate(e, es)
        print(p, "valid", e["tier"], "evals", e["coverage"]["evaluations"], "distinct", e["coverage"]["distinct_nontrivial"], "viol", e.get("violations"))
    except Exception as ex:
        print(p, "INVALID", str(ex)[:300])
