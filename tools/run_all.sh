#!/bin/bash
# usage: tools/run_all.sh [quick|thorough] [seed]   — runs every claimed check, prints one line each
TIER=${1:-quick}; SEED=${2:-1}
cd /verif
for id in $(python3 -c "import json;print(' '.join(c['property_id'] for c in json.load(open('MANIFEST.json'))['checks']))"); do
  start=$(date +%s)
  out=$(VERIF_SEED=$SEED ./check $id $TIER 2>&1); code=$?
  echo "exit=$code $(( $(date +%s) - start ))s $(echo "$out" | grep -E "^C[0-9]+ " | tail -1)"
  echo "$out" | grep -E "^(VIOLATION|INCONCLUSIVE)" | head -5
done
