#!/usr/bin/env python3
"""Store one confirmed seeded change under /verif/seeded/<ID>-r<N>-m<i>/.
usage: store_seeded.py <ID> <round> <i> <first_run: caught|missed|...> [note]
reads /tmp/wt/<ID>-r<N>-out/{m<i>.diff, m<i>_demo.*, m<i>.md, confirm.txt}"""
import sys, os, json, re, shutil, glob
ID, rnd, i, first = sys.argv[1:5]
note = sys.argv[5] if len(sys.argv) > 5 else ""
src = f"/tmp/wt/{ID}-r{rnd}-out"
name = f"{ID}-r{rnd}-m{i}"
dst = f"/verif/seeded/{name}"
os.makedirs(dst, exist_ok=True)
shutil.copy(f"{src}/m{i}.diff", f"{dst}/patch.diff")
for d in glob.glob(f"{src}/m{i}_demo.*"):
    shutil.copy(d, f"{dst}/demo" + os.path.splitext(d)[1])
conf = {}
for l in open(f"{src}/confirm.txt"):
    m = re.match(rf"m{i}: suite_with_mutation=\[(.*?)\] demo_with_mutation=(\w+) demo_without=(\w+)", l)
    if m:
        conf = {"existing_suite_with_mutation": m.group(1), "demo_with_mutation": m.group(2), "demo_without_mutation": m.group(3)}
desc = open(f"{src}/m{i}.md").read() if os.path.exists(f"{src}/m{i}.md") else ""
meta = {
    "property": ID, "name": name, "round": int(rnd),
    "origin": "independent sub-agent given the property record, a scratch worktree of /repo and the list of earlier changes to avoid (nothing from /verif); asked for kinds of mechanism not used before",
    "description": desc, "confirmation": conf,
    "confirmed_how": "tools/confirm_seeded.sh: patch applied in the scratch worktree -> full existing suite -> demo (must fail); patch reverted -> demo (must pass)",
    "first_run": first, "note": note,
    "detected_by": f"./check {ID} quick with the patch applied to /repo",
}
json.dump(meta, open(f"{dst}/meta.json", "w"), indent=1)
print("stored", dst, conf)
