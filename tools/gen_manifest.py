#!/usr/bin/env python3
"""Regenerates /verif/MANIFEST.json from the table below (single source of truth)."""
import json, subprocess, sys

HOOK_COMMITS = subprocess.run(
    ["git", "-C", "/repo", "log", "--format=%H", "--grep=verif-hooks"],
    capture_output=True, text=True).stdout.split()

# id -> (built?, technique, level text, level note, design_ref)
CHECKS = {
 "C19": (True,
   "trap monitor + shadow reference: the real main.ts (under node) and a Rust transliteration of it drive the real JsInterpreter under catch_unwind while a shadow core interpreter checks state, outputs and error text",
   "Random page-event sequences (program file loaded at start-up, lines submitted while it is still being downloaded, submitted lines / replies / commands, listings of hundreds of lines, break requests, timer ticks) are handled the way main.ts handles them against the native build of the real adapter; every adapter call is guarded against panics (traps, incl. the adapter's own assertions and the unreachable state arm) and mirrored on a shadow abasic_core::Interpreter whose state, output records and error text must equal what the adapter exposes; NEW must behave like a fresh interpreter.",
   "Two drivers: (1) a Rust transliteration of main.ts tied to the source by patterns read at run time; (2) the REAL main.ts, type-stripped by regexes and executed under node 20 with ui.ts mocked, calling the real adapter over a synchronous RPC bridge (inconclusive if the stripped script stops parsing). Native rlib build of the adapter instead of the wasm artefact.",
   "DESIGN.md §5 C19"),
 "C20": (True,
   "black-box monitoring of the real abasic-lsp child process over JSON-RPC: liveness, UTF-16 bounds oracle, equality with the in-process analyzer",
   "Scripted sessions (initialize, didOpen/didChange/didClose over several URIs, semanticTokens/full, bursts of notifications followed by a barrier request, shutdown, exit) are run against the real server binary; every notification is followed by a request that acts as a barrier and must have been answered by a publishDiagnostics once the barrier is answered (in a burst: all of them, in order); document versions restart at every didOpen; the client offers one of seven position-encoding lists and positions are checked in the unit the server announces; URIs that differ only outside the path are different documents, and the tokens of an open document other than the one analysed last are requested as well; the child must be alive; every range and decoded semantic token must lie inside the document measured in UTF-16 units, tokens ordered, non-overlapping and typed within the advertised legend; diagnostics and tokens must equal the in-process analyzer's results converted by an independent byte->UTF-16 model.",
   "Debug build of the server on stdio; missing responses while the child is alive are inconclusive; no lone CR in documents.",
   "DESIGN.md §5 C20"),
 "C05": (True,
   "contract monitor over analyzer executions (catch_unwind + well-formedness oracle on every diagnostic and token range), exhaustive over short sequences of line kinds",
   "SourceFileAnalyzer::analyze runs on every sequence of up to 3 lines from 22 line kinds over two line numbers (so every duplicate / emptied / untokenizable redefinition shape is present), on random structured files, arbitrary UTF-8 files, (partially typed) generated programs and files of 900-2600 lines with a message on almost every line; every diagnostic must map to a range on the line it names, in bounds and on char boundaries, and per-line token ranges must be ordered and non-overlapping; panics are caught per file.",
   "Native-stack exhaustion through the analyzer has its own child-process depth workload here (monitor and ship builds), in addition to C01's grid.",
   "DESIGN.md §5 C05"),
 "C06": (True,
   "differential monitoring of two implementations: analyzer verdict vs observed execution outcome, over generated lines and over programs run along all forced branches",
   "For straight-line generated lines (45% with typing/syntax mistakes) the analyzer's verdict is compared with an actual run from a fresh state in both directions the property states; files of up to 94 failing lines followed by a valid one must not get the valid line rejected (and must hand a zero nesting counter to the interpreter); lines behind STOP are executed by CONT; tiny programs with jump targets written with a fraction and with line numbers defined twice are judged in the first direction; for generated programs (half of them with their lines shuffled in the file) whose IF conditions test INPUT-controlled variables, analysis-clean programs are executed under all 2^k reply vectors and must never end in SYNTAX / TYPE MISMATCH / UNDEF'D STATEMENT.",
   "Only the stated implications are checked (never which error or where); known finding C06-KF1 (= C03-KF1) recognised by signature.",
   "DESIGN.md §5 C06"),
 "C14": (True,
   "metamorphic self-comparison on real interpreters: program vs reload of its own LIST output (listing, token counts, DATA stream, RUN transcript), exhaustive over token adjacencies",
   "Every token spelling next to every other (pairs; triples in the thorough tier), numerals in every spelling, DATA lists of every item form, random token lines and generated programs are entered, listed, reloaded into a fresh interpreter and listed again: the listing must be accepted and identical, per-line token counts and the DATA stream seen by READ must be equal, RUN transcripts equal, and the listing of each entry must tokenize to the entry's tokens.",
   "Lines rejected at entry are not part of a stored program.",
   "DESIGN.md §5 C14"),
 "C15": (True,
   "metamorphic pairs: analyzer-loaded vs typed-in interpreter compared per turn with snapshot hooks; real abasic binary run as child processes in file mode vs interactive mode under all option combinations",
   "In-process, files of numbered tokenizable lines (with duplicates, shuffling, token-soup lines, CR endings) are loaded through the analyzer and typed line by line; LIST and every turn of RUN must be identical including runtime snapshots. The real CLI binary is executed as a child for all 8 combinations of -w/-t/--skip-check in file mode and interactive mode; stdout and stderr must match after removing banner, prompts and static-analysis lines.",
   "CLI = debug build with hooks off, HOME redirected, NO_COLOR=1, piped stdio; exit codes not compared; banner and prompt are learned from the binary; CLI programs use RND (both modes seed with 0 elapsed milliseconds).",
   "DESIGN.md §5 C15"),
 "C01": (True,
   "crash/contract monitor at the API boundary (catch_unwind + post-conditions + snapshot tripwires + liveness probe), rustc overflow-checks and debug assertions as arithmetic / unsafe-precondition sanitizer, valgrind memcheck over the optimised build, child-process probes for native-stack exhaustion, token-read and CPU-time budgets per call",
   "Hostile protocol-respecting session histories and a boundary-value catalogue run on a build with overflow checks and debug assertions (and on the shipped optimisation profile); every host call is wrapped, every error value must leave the interpreter idle with a renderable caret, snapshot invariants run after every call and a liveness probe ends every history. Nested constructs to depth 100000 are probed in child processes on 1/2/8 MiB stacks through the evaluator and the static analyzer, so aborts are observed as signals; two small workloads repeat the catalogue and the histories on the optimised build under valgrind memcheck; a call that never returns is cut off by a token-read budget (hook) or a CPU-time budget of the calling thread and reported, not timed out.",
   "wasm's 1 MiB stack is emulated by thread size on the ship profile; the unoptimised debug profile is probed in the thorough tier only; Miri runs the harness but is not wired (no unsafe code in the repository; memcheck and the debug-assertion build cover an introduced one).",
   "DESIGN.md §5 C01"),
 "C04": (True,
   "history + executable model (last-writer-wins map) over edit histories with unique payload ids; index-agreement invariant at the snapshot hook",
   "Edit histories over a hot set of line numbers including 0, leading-zero spellings and the u64 extremes are applied to a real interpreter; after every operation LIST is compared with a BTreeMap model, RUN must print the unique ids in ascending order and terminate, and the snapshot hook checks that the token map and the sorted set hold the same keys. Monitor and ship builds.",
   "Canonical listing of random token lines is taken from a fresh real interpreter.",
   "DESIGN.md §5 C04"),
 "C16": (True,
   "invariant at a hook: snapshot invariants S1-S4 after every host call of hostile sessions + cap-chasing programs with predicted outcomes",
   "The snapshot hook is evaluated after every host call (here and as a tripwire in every other session-driving check): <= 32 frames, <= 32 loops with distinct variables, array cells == product of dimensions <= 10000, kinds match name suffixes for variables, cells and parameters. A catalogue of cap chasers (recursion to 32/33 frames, 32/33 nested FORs, 5000-fold FOR re-entry and loop abandonment, DIM products around the cap, overflowing bounds, 1-19 implicit subscripts, every mistyped write path) must end with the predicted OUT OF MEMORY / TYPE MISMATCH and leave the interpreter usable; dozens of subroutines entered from the prompt at a breakpoint and never returned from must not make a further GOSUB fail. Monitor and ship builds.",
   "Function-call frames exist only during a call and are therefore never visible at a turn boundary; their cap is checked through outcomes.",
   "DESIGN.md §5 C16"),
 "C07": (True,
   "metamorphic self-comparison of recorded histories: uninterrupted run vs run with breaks + inspections + CONT; state-equality hook after every inspection",
   "Generated programs run once uninterrupted and again with host breaks at randomly chosen (2%/20%/100%) or exhaustively enumerated (all subsets of <= 10) turn boundaries, 0-3 side-effect-free inspection statements (including failing ones and failing user-function calls) and CONT; program outputs, consumed replies, outcome and final variables must be identical, and the snapshot hook must show the continuation-relevant state unchanged after every inspection. STOP + typed assignment + CONT is compared with the assignment written in place.",
   "Inspections come from a fixed side-effect-free set; reading a non-existent array (which creates it) is excluded.",
   "DESIGN.md §5 C07"),
 "C10": (True,
   "metamorphic pair with snapshot hooks: interpreter with session history vs fresh interpreter, compared at every turn of RUN",
   "Random session histories (runs, failed runs, breaks incl. one between reply and next turn, immediate LET/DIM/FOR/GOSUB/GOTO/READ/CONT, edits) are followed by randomize(s)+RUN on the used interpreter and on a fresh interpreter holding the same lines; outputs, results, states and full runtime snapshots (variables, arrays, loops, frames, functions, data cursor, breakpoint, pending reply, rng) are compared at every turn.",
   "String pool and output queue length are not compared.",
   "DESIGN.md §5 C10"),
 "C11": (True,
   "invariant at a hook (snapshot after the edit) + probe statements on replayed histories",
   "Generated programs are driven to every kind of suspension point, one edit is applied (targeted at the lines that hold the breakpoint, FOR, GOSUB return point, DEF, current DATA), the snapshot must hold no runtime reference while variables/arrays are unchanged, and CONT / RETURN / NEXT v / FN call / READ / GOTO are probed, each on its own replay; an edit the interpreter refuses (an untokenizable line, or any other refusal, also on programs padded to about 32 750 tokens) must leave listing, state and continuation identical to a twin session; GOTO after an edit behaves as on a fresh interpreter rebuilt from the edited lines, the same variables, arrays and generator state.",
   "Left-over frames without a pending breakpoint are not treated as live references (unobservable: every host line clears them first).",
   "DESIGN.md §5 C11"),
 "C03": (True,
   "history + executable reference model: differential execution of generated programs against an independent AST interpreter (M-prog)",
   "Generated structured programs (all statement kinds of the property, feature interactions, deliberate runtime failures, cap-reaching recursion) are entered into a real interpreter, RUN to completion and compared with M-prog, an interpreter of the AST written from the documented semantics: exact printed output and (error kind, line). Held on the programs executed; known finding C03-KF1 is recognised by signature.",
   "Trusts M-prog's reading of the documented semantics (DESIGN.md Appendix A); constructs no document fixes are not generated.",
   "DESIGN.md §5 C03"),
 "C08": (True,
   "history + executable reference model, turn by turn: AwaitingInput points, trace/REENTER/EXTRA IGNORED records and variable state vs M-prog + independent reply model",
   "Programs with INPUT at every placement class and scripted replies (numbers, text, empty, quoted, lists, colon tails, REENTER provocations) run on a real interpreter with tracing on; every host turn is compared with M-prog: state, every output record (so the resuming call re-executes only the INPUT), and variables/arrays at every input request and at the end.",
   "Reply texts stay in the unambiguous zone of the reply model; known finding C08-KF1 (= C03-KF1) recognised by signature.",
   "DESIGN.md §5 C08"),
 "C09": (True,
   "per-call monitors: trace/print records and hook counters of token-cursor reads per host call vs M-prog's turn sequence and a work bound",
   "Every host call of generated programs is observed with tracing on: the per-call sequence must equal M-prog's one-statement-per-turn sequence; for token-soup programs per-call structural bounds hold; token-cursor reads per call are bounded by 30 x (line length + 1) for programs without user functions; non-terminating programs are driven 10000 turns with a break/CONT at a random turn; the same programs run through the Web adapter must need as many start/continue calls as the core; single statements over huge and special operand values must return within the token-read budget and the CPU-time budget of the calling thread; a multi-statement line typed at a breakpoint takes the same calls as without one; RUN + break + CONT after a suspension that was abandoned earlier in the session gives the same records call by call as on a fresh interpreter.",
   "Work = reads of the token cursor (hook counter) and, for work that reads no tokens, CPU time of the calling thread against a budget 30x above the longest legitimate call; wall time never decides. Known finding C09-KF1 (DATA index rebuild is O(program)) recognised by its own counter.",
   "DESIGN.md §5 C09"),
 "C17": (True,
   "metamorphic self-comparison over the four option configurations + trace/warning records vs M-prog events",
   "Each generated program runs four times on real interpreters (tracing x warnings, set by field or by TRACE/NOTRACE); runs must be identical after deleting Trace/Warning records (per-turn outputs, states, results, final variables/arrays), and the Trace and Warning records must equal M-prog's events per turn; immediate lines are never traced.",
   "Warning wording not compared (kind, name, line are).",
   "DESIGN.md §5 C17"),
 "C02": (True,
   "history + executable reference model: PRINT <expr> on the real interpreter vs an independent AST fold, exhaustive over small trees in two parenthesisations",
   "All trees with one binary operator over 68 decorated operands, all trees with two (quick) and three (thorough) binary operators over reduced operand sets, and random trees to depth 5 (with numerals of 15-18 significant digits) are printed with minimal and with redundant parentheses, every other case with runtime warnings enabled, evaluated by the real interpreter through PRINT and compared (text or error kind) with the reference fold. Held on every tree executed; exhaustive for the stated bounds.",
   "Trusts f64 Display and libm powf shared by model and implementation; unary plus only over numeric operands.",
   "DESIGN.md §5 C02"),
 "C12": (True,
   "metamorphic self-comparison on the real tokenizer: every single blank insertion/deletion and case flip outside literal text, exhaustive over short atom sequences",
   "For every concatenation of up to 3 (quick) / 4 (thorough) atoms of a 64-atom alphabet, and for random longer lines and DATA statements, ALL single-edit perturbations at unprotected positions plus the crunched and letter-spaced spellings are tokenized by the real tokenizer and must give the identical token sequence (or the identical failure); a sample is also entered into real interpreters and compared through LIST. Held on every line/perturbation executed; exhaustive for the stated atom bound.",
   "Protected positions are known from the generator's construction of the line, so only generated line shapes are covered; insertions use space and tab.",
   "DESIGN.md §5 C12"),
 "C13": (True,
   "contract monitor over tokenizer and analyzer executions: range well-formedness + re-tokenization oracle, exhaustive over short atom sequences; analyzer-reported ranges vs tokenizer ranges per file line",
   "Every line of up to 4 atoms of a 64-atom alphabet (plus a sample of 5-atom lines in the thorough tier, random token lines with line-number prefixes and arbitrary UTF-8 text) is tokenized through the hook; each reported range is checked for bounds, char boundaries, order, non-blank ends, REM/DATA extent, and the range text is re-tokenized alone and must give exactly that token; for failing lines the prefix before the error position must tokenize to exactly the tokens reported; files (indentation, BOM, CR, odd line numbers) go through SourceFileAnalyzer, whose token ranges and mapped tokenization-error range per file line must equal the tokenizer's; a line that does not tokenize is reported by the interpreter (message, line named, caret lines) exactly as by a fresh interpreter, whatever failed before. Held on every line executed; exhaustive for the stated bound.",
   "Trusts that the hook calls the same Tokenizer as the interpreter (it does: verif_hooks.rs); the analyzer's use of it is checked, not assumed.",
   "DESIGN.md §5 C13"),
 "C18": (True,
   "online oracle over executions: RNG hooks swept over generator states + PRINT RND scripts vs u128 LCG model",
   "Every generator state reached by the sweep (thorough: all 2^33; quick: every 128th + boundary windows) is stepped in the real Rng through the verif hooks and compared bit-for-bit with an independent u128 model; seeds up to 2^64-1, argument-sign scripts, the three front ends, re-seeded used interpreters and stored programs (draws inside user functions and as arguments of other draws, several RUNs on one interpreter) are compared through PRINT RND(x) on real interpreters. Held-on-what-ran, exhaustive over states in the thorough tier.",
   "Trusts: f64 Display shared by model and implementation; native build of the Web adapter stands in for the wasm artefact.",
   "DESIGN.md §5 C18"),
}

ALL = ["C%02d" % i for i in range(1, 21)]
NOT_BUILT_REASON = "check not built yet in this revision of /verif (runtime monitoring applies; see DESIGN.md §5)"

def main():
    checks = []
    na = []
    for pid in ALL:
        ent = CHECKS.get(pid)
        if ent and ent[0]:
            _, technique, text, note, ref = ent
            checks.append({
                "property_id": pid,
                "quick_cmd": "./check %s quick" % pid,
                "thorough_cmd": "./check %s thorough" % pid,
                "evidence_file": "/verif/evidence/%s.json" % pid,
                "replay_cmd_template": "./check %s --replay {path}" % pid,
                "engine": "abv",
                "level_claimed": {"category": "exploration", "text": text, "design_ref": ref},
                "level_note": note,
                "technique": technique,
            })
        else:
            na.append({"property_id": pid, "reason": NOT_BUILT_REASON})
    manifest = {
        "version": 1,
        "setup_cmd": "./check --setup",
        "hooks": {
            "guard": "verif-hooks (cargo feature of abasic-core, off by default)",
            "enable": "the harness crate /verif/harness depends on /repo/abasic-core by path with features=[\"verif-hooks\"]; every ./check run rebuilds it from /repo's working tree",
            "baseline_off_cmd": "cd /repo && cargo test --workspace --no-fail-fast --offline",
            "source_commits": HOOK_COMMITS,
            "add_only": True,
        },
        "engines": [{
            "name": "abv", "path": "/verif/harness",
            "serves_properties": [c["property_id"] for c in checks],
            "kind_free_text": "Rust harness: protocol-respecting host driver + snapshot invariant hooks + reference models + metamorphic pairs, sharded over worker processes (runtime monitoring)",
        }],
        "checks": checks,
        "notes": "Family: runtime monitoring and sanitizers. Exit 0 = held on everything explored; 1 = VIOLATION; 2 = INCONCLUSIVE (never reported as violation or as held). Known findings: /verif/known_findings.json.",
        "not_applicable": na,
    }
    json.dump(manifest, open("/verif/MANIFEST.json", "w"), indent=1)
    print("claimed:", [c["property_id"] for c in checks])

if __name__ == "__main__":
    main()
