#!/usr/bin/env python3
"""Apply each seeded mutation to /repo, run the named checks (quick), restore /repo. Prints one line per run.
usage: seeded_eval.py <dir-with-patches> [ID ...]      patches: <dir>/<ID>-out/m<i>.diff  or /verif/seeded/<name>/patch.diff"""
import subprocess, sys, os, json, glob, re
def sh(cmd, **kw): return subprocess.run(cmd, shell=True, capture_output=True, text=True, **kw)
def clean(): sh("git -C /repo checkout -- . ; git -C /repo clean -fdq abasic-core/tests abasic-web/tests")
def run(patch, checks, tier="quick"):
    assert sh("git -C /repo status --porcelain").stdout.strip() == "", "/repo not clean"
    r = sh(f"git -C /repo apply {patch}")
    if r.returncode != 0:
        return [("apply-failed", r.stderr.strip()[:200])]
    out = []
    try:
        for c in checks:
            r = sh(f"cd /verif && ./check {c} {tier}")
            viol = [l for l in r.stdout.splitlines() if l.startswith("VIOLATION")]
            sigs = [l.strip()[:160] for l in r.stderr.splitlines() if l.strip().startswith("[")]
            inc = [l for l in r.stdout.splitlines() if l.startswith("INCONCLUSIVE")]
            out.append((c, r.returncode, len(viol), sigs[:3], inc[:2]))
    finally:
        clean()
    return out
if __name__ == "__main__" and sys.argv[1] == "--stored":
    # re-run every stored seeded change against its property's check: seeded_eval.py --stored [name ...]
    names = sys.argv[2:] or sorted(os.listdir("/verif/seeded"))
    missed = []
    for n in names:
        patch = f"/verif/seeded/{n}/patch.diff"
        if not os.path.exists(patch): continue
        pid = n[:3]
        res = run(patch, [pid])
        caught = any(isinstance(r, tuple) and len(r) > 2 and r[1] == 1 and r[2] > 0 for r in res)
        print(n, "CAUGHT" if caught else "MISSED", json.dumps(res)[:300], flush=True)
        if not caught: missed.append(n)
    print("missed:", missed)
    sys.exit(0)
if __name__ == "__main__":
    base = sys.argv[1]
    ids = sys.argv[2:] or sorted({os.path.basename(p)[:3] for p in glob.glob(base + "/C*-out")})
    extra = {"C09": ["C19"], "C05": ["C01"], "C14": ["C04"], "C08": ["C10"], "C10": ["C01"], "C07": ["C01"], "C02": ["C01"], "C15": ["C12"]}
    results = {}
    for pid in ids:
        for i in (1, 2):
            patch = f"{base}/{pid}{os.environ.get('SUF','')}-out/m{i}.diff"
            if not os.path.exists(patch): continue
            res = run(patch, [pid] + extra.get(pid, []))
            results[f"{pid}-m{i}"] = res
            print(pid, f"m{i}", json.dumps(res)[:600], flush=True)
    json.dump(results, open("/tmp/wt/eval_results.json", "w"), indent=1)
