import subprocess, sys, json
MUTS = [
 ("c02-pow-right-assoc", "abasic-core/src/expression.rs",
  "            let power = self.evaluate_unary_operator()?;\n            value = evaluate_exponent(value, power)?;",
  "            let power = self.evaluate_exponent_expression()?;\n            value = evaluate_exponent(value, power)?;", ["C02"]),
 ("c03-next-strict", "abasic-core/src/program.rs", "            new_value <= loop_info.to_value", "            new_value < loop_info.to_value", ["C03"]),
 ("c04-drop-sorted-remove", "abasic-core/src/program_lines.rs", "            self.sorted_line_numbers.remove(&line_number);\n", "", ["C04"]),
 ("c11-keep-loops-on-edit", "abasic-core/src/program.rs",
  "        self.functions.clear();\n        self.stack.clear();\n        self.loop_stack.clear();\n        self.end();\n    }\n\n    fn tokens_for_line",
  "        self.functions.clear();\n        self.stack.clear();\n        self.end();\n    }\n\n    fn tokens_for_line", ["C11"]),
 ("c11-keep-functions-on-edit", "abasic-core/src/program.rs",
  "        self.reset_data_cursor();\n        self.functions.clear();\n        self.stack.clear();\n        self.loop_stack.clear();\n        self.end();\n    }\n\n    fn tokens_for_line",
  "        self.reset_data_cursor();\n        self.stack.clear();\n        self.loop_stack.clear();\n        self.end();\n    }\n\n    fn tokens_for_line", ["C11"]),
 ("c07-clear-stack-on-immediate", "abasic-core/src/program.rs", "        if self.breakpoint.is_none() {\n            self.stack.clear();\n        }", "        self.stack.clear();", ["C07"]),
 ("c08-rewind-to-line-start", "abasic-core/src/program.rs", "            if self.peek_next_token() == wrapped_token {\n                return;\n            }", "            if self.location.token_index == 0 && wrapped_token.is_some() {\n                return;\n            }", ["C08"]),
 ("c09-loop-in-continue", "abasic-core/src/interpreter.rs", "        let result = self.run_next_statement();\n        self.postprocess_result(result)\n    }\n\n    /// Start evaluating",
  "        let mut result = self.run_next_statement();\n        if result.is_ok() && self.state == InterpreterState::Running {\n            result = self.run_next_statement();\n        }\n        self.postprocess_result(result)\n    }\n\n    /// Start evaluating", ["C09"]),
 ("c10-keep-data-cursor", "abasic-core/src/program.rs", "        self.breakpoint = None;\n        self.reset_data_cursor();\n        self.functions.clear();\n        self.stack.clear();\n        self.loop_stack.clear();\n        self.end();\n    }\n\n    /// Go to the first",
  "        self.breakpoint = None;\n        self.functions.clear();\n        self.stack.clear();\n        self.loop_stack.clear();\n        self.end();\n    }\n\n    /// Go to the first", ["C10"]),
 ("c12-keyword-case-sensitive", "abasic-core/src/tokenizer.rs", "            if byte.to_ascii_uppercase() == keyword_bytes[keyword_idx] {", "            if byte == keyword_bytes[keyword_idx] {", ["C12"]),
 ("c13-token-start-before-blank", "abasic-core/src/tokenizer.rs", "        self.chomp_leading_whitespace();\n\n        if self.index == self.bytes().len() {", "        if self.index == self.bytes().len() {", ["C13", "C12"]),
 ("c14-list-no-blank", "abasic-core/src/program_lines.rs", '                .join(" ");\n            let line_source', '                .join("");\n            let line_source', ["C14"]),
 ("c16-stack-limit-gt", "abasic-core/src/program.rs", "    pub fn gosub_line_number(&mut self, line_number: u64) -> Result<(), TracedInterpreterError> {\n        if self.stack.len() == STACK_LIMIT {", "    pub fn gosub_line_number(&mut self, line_number: u64) -> Result<(), TracedInterpreterError> {\n        if self.stack.len() > STACK_LIMIT {", ["C16"]),
 ("c17-warning-creates-array", "abasic-core/src/interpreter.rs", "        if self.enable_warnings && !self.arrays.has(array_name) {\n            self.warn(format!(\"Use of undeclared array '{}'.\", array_name));",
  "        if self.enable_warnings && !self.arrays.has(array_name) {\n            let _ = self.arrays.create(array_name.clone(), vec![10]);\n            self.warn(format!(\"Use of undeclared array '{}'.\", array_name));", ["C17"]),
 ("c18-modulus", "abasic-core/src/random.rs", "const MODULUS: u64 = 2 << 32;", "const MODULUS: u64 = 2 << 31;", ["C18"]),
 ("c18-divide-mod-minus-1", "abasic-core/src/random.rs", "(self.seed as f64) / (MODULUS as f64)", "(self.seed as f64) / ((MODULUS - 1) as f64)", ["C18"]),
 ("c19-no-replace-in-start", "abasic-web/src/lib.rs", "            self.latest_error = Some(lines.join(\"\\n\"));\n        } else {\n            self.maybe_replace_interpreter();\n        }", "            self.latest_error = Some(lines.join(\"\\n\"));\n        }", ["C19"]),
 ("c20-delta-start-off-by-one", "abasic-lsp/src/main.rs", "            let delta_start = token_start.saturating_sub(prev_token_start);", "            let delta_start = token_start.saturating_sub(prev_token_start) + if prev_token_start > 0 { 1 } else { 0 };", ["C20"]),
 ("c15-analyzer-wrong-line", "abasic-core/src/analyzer/source_file_analyzer.rs", "                        self.program.set_numbered_line(basic_line_number, tokens);", "                        self.program.set_numbered_line(basic_line_number % 1000, tokens);", ["C15"]),
 ("c01-unwrap-on-goto", "abasic-core/src/statement.rs", "        let Some(Token::NumericLiteral(line_number)) = self.program().next_token() else {\n            return Err(InterpreterError::UndefinedStatement.into());\n        };\n        self.program().goto_line_number(line_number as u64)?;",
  "        let Some(Token::NumericLiteral(line_number)) = self.program().next_token() else {\n            return Err(InterpreterError::UndefinedStatement.into());\n        };\n        assert!(line_number < 1e18);\n        self.program().goto_line_number(line_number as u64)?;", ["C01"]),
 ("c05-token-range-off", "abasic-core/src/analyzer/source_file_analyzer.rs", "                vec![(TokenType::Number, 0..line_number_end)];", "                vec![(TokenType::Number, 0..line_number_end + 1)];", ["C05"]),
 ("c06-analyzer-skips-then", "abasic-core/src/analyzer/statement_analyzer.rs", "        // Evaluate the \"then\" clause.\n        self.evaluate_statement_or_goto_line_number()?;\n        if self.program().accept_next_token(Token::Else) {", "        // Evaluate the \"then\" clause.\n        let _ = self.evaluate_statement_or_goto_line_number();\n        if self.program().accept_next_token(Token::Else) {", ["C06"]),
]
only = sys.argv[1:] 
for name, f, old, new, checks in MUTS:
    if only and name not in only: continue
    path = "/repo/" + f
    s = open(path).read()
    if old not in s:
        print("!!", name, "anchor not found"); continue
    open(path, "w").write(s.replace(old, new, 1))
    try:
        # does it still pass the repo's tests?
        t = "-"
        for c in checks:
            r = subprocess.run(["/verif/check", c, "quick"], capture_output=True, text=True)
            last = [l for l in r.stdout.splitlines() if l.startswith(c+" ")]
            viol = [l for l in r.stdout.splitlines() if l.startswith("VIOLATION")]
            print(f"{name:32s} tests_failed={t:>3s} {c} exit={r.returncode} {last[-1].split('verdict=')[1].split()[0] if last else '?'} violations={len(viol)}", flush=True)
    finally:
        subprocess.run(["git", "-C", "/repo", "checkout", "--", "."])
