#!/bin/bash
# usage: confirm_seeded.sh <ID> [-rN]  (expects a scratch worktree /tmp/wt/<ID><suffix> and deliverables in /tmp/wt/<ID><suffix>-out)
# demo with the mutation (must fail), demo without (must pass). Writes /tmp/wt/<ID>-out/confirm.txt
ID=$1; SUF=${2:-}
WT=/tmp/wt/$ID$SUF; OUT=/tmp/wt/$ID$SUF-out
export CARGO_NET_OFFLINE=true CARGO_TARGET_DIR=$WT/target RUST_BACKTRACE=0 NO_COLOR=1
cd $WT
: > $OUT/confirm.txt
git checkout -q -- . ; git clean -fdq abasic-core/tests abasic-web/tests 2>/dev/null
run_demo() { # $1 = i ; echoes PASS or FAIL
  i=$1
  if [ -f $OUT/m${i}_demo.rs ]; then
    if [ "$ID" = "C19" ]; then
      mkdir -p abasic-web/tests; cp $OUT/m${i}_demo.rs abasic-web/tests/seeded_demo.rs
      timeout 900 cargo test -p abasic-web --no-default-features --offline --test seeded_demo >/dev/null 2>&1 && echo PASS || echo FAIL
      rm -f abasic-web/tests/seeded_demo.rs
    else
      cp $OUT/m${i}_demo.rs abasic-core/tests/seeded_demo.rs
      feat=""; grep -q "verif_snapshot\|verif_hooks" $OUT/m${i}_demo.rs && feat="--features verif-hooks"
      timeout 900 cargo test -p abasic-core $feat --offline --test seeded_demo >/dev/null 2>&1 && echo PASS || echo FAIL
      rm -f abasic-core/tests/seeded_demo.rs
    fi
  elif [ -f $OUT/m${i}_demo.sh ]; then
    timeout 900 bash $OUT/m${i}_demo.sh >/dev/null 2>&1 && echo PASS || echo FAIL
  elif [ -f $OUT/m${i}_demo.py ]; then
    timeout 600 cargo build -p abasic-lsp --offline >/dev/null 2>&1
    timeout 600 python3 $OUT/m${i}_demo.py >/dev/null 2>&1 && echo PASS || echo FAIL
  else
    echo NODEMO
  fi
}
for i in 1 2; do
  [ -f $OUT/m$i.diff ] || { echo "m$i: no diff" >> $OUT/confirm.txt; continue; }
  git checkout -q -- .
  if ! git apply $OUT/m$i.diff 2>/dev/null; then echo "m$i: patch does not apply" >> $OUT/confirm.txt; continue; fi
  suite=$(timeout 1200 cargo test --workspace --no-fail-fast --offline 2>&1 | grep -E "^test result" | awk '{p+=$4; f+=$6} END {print p" passed "f" failed"}')
  with=$(run_demo $i)
  git checkout -q -- .
  without=$(run_demo $i)
  echo "m$i: suite_with_mutation=[$suite] demo_with_mutation=$with demo_without=$without" >> $OUT/confirm.txt
done
git checkout -q -- .
cat $OUT/confirm.txt
