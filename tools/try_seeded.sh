#!/bin/bash
# usage: tools/try_seeded.sh <seeded-name> [check-id ...]   — apply the stored patch to /repo, run the quick checks, restore /repo
n=$1; shift; ids=${@:-${n:0:3}}
[ -z "$(git -C /repo status --porcelain)" ] || { echo "/repo not clean"; exit 2; }
git -C /repo apply /verif/seeded/$n/patch.diff || exit 2
for id in $ids; do (cd /verif && ./check $id quick 2>&1 | grep -v conda | grep -v "^KNOWN" | cut -c1-${CUT:-400} | tail -${TAIL:-4}); done
git -C /repo checkout -- . ; git -C /repo clean -fdq abasic-core/tests abasic-web/tests
