#!/bin/bash
# usage: tools/try_mutation.sh <patch.diff> <ID> [<ID>...]   (optional env TIER=quick|thorough)
# Applies the patch to /repo, runs the given checks, ALWAYS restores /repo afterwards.
set -u
PATCH=$1; shift
TIER=${TIER:-quick}
cd /verif
if [ -n "$(git -C /repo status --porcelain)" ]; then echo "/repo is not clean"; exit 2; fi
if ! git -C /repo apply "$PATCH"; then echo "patch does not apply"; exit 2; fi
trap 'git -C /repo checkout -- . ; git -C /repo clean -fdq abasic-core/tests 2>/dev/null' EXIT
for id in "$@"; do
  out=$(./check $id $TIER 2>&1); code=$?
  echo "== $id exit=$code $(echo "$out" | grep -E "^C[0-9]+ " | tail -1)"
  echo "$out" | grep -E "^(VIOLATION|INCONCLUSIVE|  \[)" | cut -c1-400 | head -6
done
